---------------------------- MODULE Trace_Revision ----------------------------
(***************************************************************************)
(* Trace validation for c-revision (C19).  TRACE_FILE: JSON array of       *)
(* traces [env |-> [nw, prior], events].  Events:                          *)
(*   add i cond acc rej | addfail i | remove i acc rej                     *)
(*        (acc/rej: the model's per-world caches after the call)           *)
(*   compile kind v f     kind in {"model", "alt", "fast"}; v/f: sequence of *)
(*        <<index, sequence of <<rank, accepted others, rejected others>>>> *)
(*   crev plusZero fixp fixm kind result gp gm bound                       *)
(*        result "ok" with the parameters, "none", or "error"              *)
(*   crevfront vectors bound   (c_revision_pareto_front, gamma+ = 0)       *)
(***************************************************************************)
EXTENDS Revision, Json, IOUtils

VARIABLES t, l
tvars == <<t, l, rvars>>

Log == JsonDeserialize(IOEnv.TRACE_FILE)
NT  == Len(Log)
E   == Log[t].env
Ev  == Log[t].events
Cur == Ev[l]
WS  == 1..E.nw

ToSet(s) == {s[i] : i \in DOMAIN s}
IsEvent(name) == t > 0 /\ l <= Len(Ev) /\ Cur.ev = name /\ l' = l + 1 /\ t' = t
CachesAre(a, r) == \A w \in WS : acc'[w] = ToSet(a[w]) /\ rej'[w] = ToSet(r[w])

TAdd     == IsEvent("add") /\ Add(Cur.i, Cur.cond) /\ CachesAre(Cur.acc, Cur.rej)
TAddFail == IsEvent("addfail") /\ Cur.i \in DOMAIN conds /\ UNCHANGED rvars
TRemove  == IsEvent("remove") /\ Remove(Cur.i) /\ CachesAre(Cur.acc, Cur.rej)

(* pairs <<key, value>> -> function *)
FromPairs(ps) == [k \in {ps[j][1] : j \in DOMAIN ps} |-> (CHOOSE j \in DOMAIN ps : ps[j][1] = k)]
Lookup(ps, k) == ps[FromPairs(ps)[k]][2]
Keys(ps) == {ps[j][1] : j \in DOMAIN ps}

TripleOf(x) == <<x[1], ToSet(x[2]), ToSet(x[3])>>
BagFrom(lst) == LET ts == {TripleOf(lst[j]) : j \in DOMAIN lst}
                IN  [tr \in ts |-> Cardinality({j \in DOMAIN lst : TripleOf(lst[j]) = tr})]
TCompile ==
    /\ IsEvent("compile") /\ UNCHANGED rvars
    /\ LET X == Compilation(E.prior, conds)
       IN  /\ Keys(Cur.v) = DOMAIN conds /\ Keys(Cur.f) = DOMAIN conds
           /\ \A i \in DOMAIN conds : BagFrom(Lookup(Cur.v, i)) = X[i].v /\ BagFrom(Lookup(Cur.f, i)) = X[i].f

FunOf(ps, D) == [k \in D |-> IF k \in Keys(ps) THEN Lookup(ps, k) ELSE 0]
TCRev ==
    /\ IsEvent("crev") /\ UNCHANGED rvars
    /\ LET D == DOMAIN conds
           fixp == [k \in Keys(Cur.fixp) |-> Lookup(Cur.fixp, k)]
           fixm == [k \in Keys(Cur.fixm) |-> Lookup(Cur.fixm, k)]
       IN  CASE Cur.result = "ok" ->
                  LET gp == FunOf(Cur.gp, D)
                      gm == FunOf(Cur.gm, D)
                  IN  /\ RevOK(E.prior, conds, gp, gm, fixp, fixm)
                      \* with gamma+ fixed to zero the gamma- vector is Pareto-minimal
                      /\ ((Cur.plusZero /\ \A i \in D : gp[i] = 0) => SmallerMinus(E.prior, conds, gp, gm, fixp, fixm) = {})
             [] Cur.result = "none" ->
                  \* returning nothing is wrong as soon as admissible parameters exist (a witness inside the box)
                  Admissible(E.prior, conds, Cur.pbound, Cur.bound, Cur.plusZero, fixp, fixm) = {}
             [] OTHER -> FALSE            \* it never raises

(* beyond the listed property: c_revision_pareto_front with gamma+ = 0 returns exactly the Pareto-minimal gamma-  *)
(* vectors (each once; complete up to the stated bound)                                                          *)
TCRevFront ==
    /\ IsEvent("crevfront") /\ UNCHANGED rvars
    /\ LET D == DOMAIN conds
           zero == [i \in D |-> 0]
           none == [i \in {} |-> 0]
           vs == {FunOf(Cur.vectors[j], D) : j \in DOMAIN Cur.vectors}
           ok(g) == RevOK(E.prior, conds, zero, g, none, none)
           box == {g \in [D -> 0..Cur.bound] : ok(g)}
       IN  /\ Cardinality(vs) = Len(Cur.vectors)
           /\ \A g \in vs : ok(g) /\ SmallerMinus(E.prior, conds, zero, g, none, none) = {}
           /\ \A g \in {b \in box : ~\E c \in box : VecLess(c, b)} : g \in vs

TMatch == TAdd \/ TAddFail \/ TRemove \/ TCompile \/ TCRev \/ TCRevFront

Reject ==
    /\ t > 0 /\ l <= Len(Ev) /\ ~ENABLED TMatch
    /\ PrintT(ToJson([reject |-> t, at |-> l, event |-> Cur, state |-> [conds |-> DOMAIN conds]]))
    /\ l' = Len(Ev) + 2 /\ t' = t /\ UNCHANGED rvars
Accept == /\ t > 0 /\ l = Len(Ev) + 1 /\ PrintT(ToJson([accept |-> t])) /\ l' = Len(Ev) + 3 /\ t' = t /\ UNCHANGED rvars
PickTrace == t = 0 /\ t' \in 1..NT /\ l' = 1 /\ conds' = [i \in {} |-> 0] /\ acc' = [w \in 1..Log[t'].env.nw |-> {}] /\ rej' = [w \in 1..Log[t'].env.nw |-> {}]

TInit == t = 0 /\ l = 0 /\ conds = [i \in {} |-> 0] /\ acc = <<>> /\ rej = <<>>
TNext == PickTrace \/ TMatch \/ Reject \/ Accept
TraceSpec == TInit /\ [][TNext]_tvars

TraceCachesExact == t > 0 => CachesExact
=============================================================================
