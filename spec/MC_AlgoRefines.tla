---------------------------- MODULE MC_AlgoRefines ----------------------------
(***************************************************************************)
(* Each implementation-shaped algorithm of InfOCFAlgo refines its          *)
(* definition in InfOCFSem, for every base of the small universe (or the   *)
(* cases listed in CASES_FILE) and every query, in both modes; and each    *)
(* named wrong variant is reported with the inputs on which it differs     *)
(* from the definition (one JSON line per distinguishing input).           *)
(***************************************************************************)
EXTENDS InfOCFAlgo, Universe, Json, IOUtils

CONSTANTS MaxB, FromFile, MaxReport, CU     \* CU: impact bound for the c-inference refinement (0 = skip)

VARIABLES stage, case, bad
vars == <<stage, case, bad>>

FileCases == IF FromFile THEN JsonDeserialize(IOEnv.CASES_FILE) ELSE <<>>
Cases == IF FromFile THEN {FileCases[i] : i \in DOMAIN FileCases}
         ELSE {[b |-> idx, qs |-> <<>>] : idx \in BasesUpTo(MaxB)}

QsOf(c) == IF c.qs = <<>> THEN 0..(NC - 1) ELSE {c.qs[i] : i \in DOMAIN c.qs}

Mismatch(c) ==
    LET B == BaseOf(c.b)
        P == Part(B, WS)
        ok(m) == IF m THEN NoFal(B, P.inf, WS) # {} ELSE P.inf = {}
    IN  {<<name, qi, m>> \in (IF CU > 0 THEN {"z", "w", "l", "p", "c"} ELSE {"z", "w", "l", "p"}) \X QsOf(c) \X BOOLEAN :
            /\ ok(m)
            /\ LET q == CondOf(qi)
               IN  CASE name = "z" -> AlgoZ(B, q, WS, m) # SysZP(B, P, q, WS, m)
                     [] name = "w" -> AlgoW(B, q, WS, m) # SysWP(B, P, q, WS, m)
                     [] name = "l" -> AlgoLex(B, q, WS, m) # SysLexP(B, P, q, WS, m)
                     [] name = "p" -> m /\ AlgoPInf(B, q, WS) # PEntP(B, P, q, WS, TRUE)
                     [] name = "c" -> ~m /\ AlgoC(B, q, WS, CU) # CInf(B, q, WS, CU)}

Distinguishing(c) ==
    LET B == BaseOf(c.b)
        P == Part(B, WS)
    IN  {<<name, qi>> \in {"lexAllPairs", "lexLeq", "lexAllMcsF", "wNoTie", "wAnyTie", "wMinCard"} \X QsOf(c) :
            /\ P.inf = {}
            /\ LET q == CondOf(qi)
               IN  CASE name = "lexAllPairs" -> AlgoLexAllPairs(B, q, WS, FALSE) # SysLexP(B, P, q, WS, FALSE)
                     [] name = "lexLeq"      -> AlgoLexLeq(B, q, WS, FALSE) # SysLexP(B, P, q, WS, FALSE)
                     [] name = "lexAllMcsF"  -> AlgoLexAllMcsF(B, q, WS, FALSE) # SysLexP(B, P, q, WS, FALSE)
                     [] name = "wNoTie"      -> AlgoWNoTie(B, q, WS, FALSE) # SysWP(B, P, q, WS, FALSE)
                     [] name = "wAnyTie"     -> AlgoWAnyTie(B, q, WS, FALSE) # SysWP(B, P, q, WS, FALSE)
                     [] name = "wMinCard"    -> AlgoWMinCard(B, q, WS, FALSE) # SysWP(B, P, q, WS, FALSE)}

Report(c) ==
    LET D == Distinguishing(c)
    IN  \A d \in D : PrintT(ToJson([variant |-> d[1], b |-> c.b, q |-> d[2],
                                    expected |-> (IF d[1] \in {"wNoTie", "wAnyTie", "wMinCard"} THEN SysW(BaseOf(c.b), CondOf(d[2]), WS, FALSE)
                                                  ELSE SysLex(BaseOf(c.b), CondOf(d[2]), WS, FALSE))]))

Init == stage = 0 /\ case = <<>> /\ bad = {}
Pick == stage = 0 /\ case' \in Cases /\ stage' = 1 /\ UNCHANGED bad
Eval == stage = 1 /\ bad' = Mismatch(case) /\ Report(case) /\ stage' = 2 /\ UNCHANGED case
Next == Pick \/ Eval
Spec == Init /\ [][Next]_vars

AlgoRefinesDef == bad = {}
=============================================================================
