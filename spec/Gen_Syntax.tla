------------------------------ MODULE Gen_Syntax ------------------------------
(***************************************************************************)
(* Path G for the formula language: TLC classifies EVERY token string of   *)
(* length <= K+2 over the nine formula tokens (accept + truth table, or    *)
(* reject) with the recognizer of InfOCFSyntax.  One line is printed per   *)
(* prefix of length K, carrying the result codes of the 91 strings that    *)
(* extend it by 0, 1 or 2 tokens (canonical order: <<>>, <<i>>, <<i,j>>),  *)
(* plus one line ("short") for all strings shorter than K.                 *)
(***************************************************************************)
EXTENDS InfOCFSyntax, Json, SequencesExt

CONSTANT K

VARIABLES stage, pre
vars == <<stage, pre>>

TOK == <<"a", "b", "T", "F", "!", ",", ";", "(", ")">>
NT  == Len(TOK)
Str(ix) == [i \in DOMAIN ix |-> TOK[ix[i]]]

Exts == <<<<>>>> \o [i \in 1..NT |-> <<i>>] \o [n \in 1..(NT * NT) |-> <<((n - 1) \div NT) + 1, ((n - 1) % NT) + 1>>]

RECURSIVE AllIdx(_)
AllIdx(n) == IF n = 0 THEN {<<>>} ELSE {s \o <<i>> : s \in AllIdx(n - 1), i \in 1..NT}

ShortOnes == SetToSortSeq(UNION {AllIdx(n) : n \in 0..(K - 1)},
                          LAMBDA x, y : Len(x) < Len(y) \/ (Len(x) = Len(y) /\ \E k \in 1..Len(x) : (\A m \in 1..(k-1) : x[m] = y[m]) /\ x[k] < y[k]))

Row(p) == [p |-> p, r |-> [e \in DOMAIN Exts |-> Code(Str(p \o Exts[e]))]]
ShortRow == [short |-> ShortOnes, r |-> [e \in DOMAIN ShortOnes |-> Code(Str(ShortOnes[e]))]]

Init == stage = 0 /\ pre = <<>>
Pick == stage = 0 /\ pre' \in AllIdx(K) /\ stage' = 1
PickShort == stage = 0 /\ pre' = <<0>> /\ stage' = 1
Emit == stage = 1 /\ stage' = 2 /\ UNCHANGED pre
        /\ IF pre = <<0>> THEN PrintT(ToJson(ShortRow)) ELSE PrintT(ToJson(Row(pre)))
Next == Pick \/ PickShort \/ Emit
Spec == Init /\ [][Next]_vars
=============================================================================
