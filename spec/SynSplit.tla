------------------------------- MODULE SynSplit -------------------------------
(***************************************************************************)
(* Conditional syntax splittings of a belief base (synsplit/split.py) and  *)
(* the splitting postulates for the inference operators.                    *)
(*                                                                         *)
(* Signature = atoms 1..NA; world w in 1..2^NA is the bitstring of w-1,    *)
(* atom 1 most significant (the convention of InfOCFSem).                  *)
(* A base is a function key -> conditional vector; At[k] is the LANGUAGE of *)
(* conditional k, the set of atoms occurring in it (syntactic: it contains  *)
(* the atoms the vector depends on, and may contain more).                  *)
(*                                                                         *)
(* A conditional syntax splitting  D = D1 U_{S1,S2} D2 | S3  is a partition *)
(* {S1,S2,S3} of the signature (parts may be empty) with                    *)
(*   Di = the conditionals whose language is inside Si u S3,  D1 u D2 = D.  *)
(* (S1,S2) and (S2,S1) are the same splitting.  It is                       *)
(*   genuine      iff neither Di contains the other,                        *)
(*   safe         iff every valuation of Si u S3 can be extended over Sj to *)
(*                a world that falsifies no conditional of Dj (both ways),  *)
(*   generalized safe: the same, ignoring conditionals over S3 alone.       *)
(* [Heyninck, Kern-Isberner, Meyer, Haldimann, Beierle: Conditional syntax  *)
(*  splitting for non-monotonic inference operators, AAAI 2023]             *)
(***************************************************************************)
EXTENDS InfOCFSem

Bit(NA, w, a)      == ((w - 1) \div Pow2(NA - a)) % 2
Agree(NA, w, v, S) == \A a \in S : Bit(NA, w, a) = Bit(NA, v, a)

(* the atoms a conditional vector depends on *)
Support(NA, c) ==
    {a \in 1..NA : \E w, v \in DOMAIN c : Agree(NA, w, v, (1..NA) \ {a}) /\ c[w] # c[v]}
LanguageOK(NA, B, At) == \A k \in DOMAIN B : Support(NA, B[k]) \subseteq At[k] /\ At[k] \subseteq 1..NA

Over(At, K, S) == {k \in K : At[k] \subseteq S}

(* one side of a splitting: the free atoms, the sub-base *)
Side(At, K, S, S3) == [s |-> S, d |-> Over(At, K, S \cup S3)]

(* all conditional syntax splittings; a splitting is [s3, sides] with sides  *)
(* the SET of its two sides (one element when both sides coincide)          *)
Splittings(NA, At, K) ==
    LET Sig == 1..NA
    IN  {sp \in {[s3 |-> S3, sides |-> {Side(At, K, S1, S3), Side(At, K, (Sig \ S3) \ S1, S3)}] :
                    S3 \in SUBSET Sig, S1 \in SUBSET Sig} :
            /\ \A x \in sp.sides : x.s \cap sp.s3 = {}
            /\ UNION {x.d : x \in sp.sides} = K}

(* (a splitting whose two sides coincide is not genuine) *)
IsGenuine(sp) == Cardinality(sp.sides) = 2 /\ \A x, y \in sp.sides : x # y => ~(x.d \subseteq y.d)

(* every world can be changed on the atoms `free` alone so that no conditional of D is falsified *)
Extendable(NA, B, D, free, WS) ==
    \A w \in WS : \E v \in WS : Agree(NA, w, v, (1..NA) \ free) /\ \A k \in D : B[k][v] # 2

IsSafe(NA, B, At, sp, WS, generalized) ==
    \A x \in sp.sides :
        LET D == IF generalized THEN {k \in x.d : ~(At[k] \subseteq sp.s3)} ELSE x.d
        IN  Extendable(NA, B, D, x.s, WS)

-----------------------------------------------------------------------------
(* Propositions over a set of atoms, as world sets                          *)
DependsOnly(NA, X, S, WS) == \A w, v \in WS : Agree(NA, w, v, S) => (w \in X <=> v \in X)
(* complete conjunctions over S (one per valuation of S) *)
Complete(NA, S, WS) == {{v \in WS : Agree(NA, w, v, S)} : w \in WS}
PropsOver(NA, S, WS) == {UNION T : T \in SUBSET Complete(NA, S, WS)}

QOf(Bs, As, WS) == [w \in WS |-> IF w \notin As THEN 0 ELSE IF w \in Bs THEN 1 ELSE 2]

(* The postulates for a safe splitting sp of base B, side x (other side y), for an inference relation given   *)
(* as InfFull(q) (from B) and InfSub(q) (from the sub-base B|x.d):                                            *)
(*   CRel  for A,C over x.s, D complete over S3:     A D |~_B  C  iff  A D |~_{B|x.d}  C                      *)
(*   CInd  ... and consistent E over y.s:            A D |~_B  C  iff  A D E |~_B  C                          *)
(* (C may be taken inside A: only A&C matters; A = false is trivial)                                          *)
CRelSide(NA, sp, x, WS, InfFull(_), InfSub(_)) ==
    \A D \in Complete(NA, sp.s3, WS) : \A A \in PropsOver(NA, x.s, WS) \ {{}} : \A C \in PropsOver(NA, x.s, WS) :
        C \subseteq A => (InfFull(QOf(C, A \cap D, WS)) <=> InfSub(QOf(C, A \cap D, WS)))

CIndSide(NA, sp, x, y, WS, InfFull(_)) ==
    \A D \in Complete(NA, sp.s3, WS) : \A A \in PropsOver(NA, x.s, WS) \ {{}} : \A C \in PropsOver(NA, x.s, WS) :
        C \subseteq A =>
            \A E \in PropsOver(NA, y.s, WS) \ {{}} :
                InfFull(QOf(C, A \cap D, WS)) <=> InfFull(QOf(C, (A \cap D) \cap E, WS))
=============================================================================
