----------------------------- MODULE BudgetProof -----------------------------
(***************************************************************************)
(* Unbounded companion of MC_Budget (checked by the TLA+ proof system):     *)
(* NoUnflaggedWrong and NoFaultRaise are invariants of the budgeted call    *)
(* machine of Budget.tla (by-index plumbing) for ANY queries, keys, batch   *)
(* sizes, budget triples, preprocessing durations, completion orders,       *)
(* placements of expiries, lost workers and preprocessing retries.          *)
(***************************************************************************)
EXTENDS Budget, TLAPS

CONSTANTS Q, K, E
ASSUME EnvOK == /\ E.truth \in [Q -> {"T", "F"}]
                /\ E.text \in [Q -> STRING]
                /\ E.cons \in BOOLEAN
ASSUME ByIndex == Plumbing = "byIndex"

BatchT == Seq([key : K, q : Q])
ResT   == [idx : Nat, key : K, q : Q, ans : {"T", "F"}, to : BOOLEAN]

BudT == [1..3 -> Int]
allvars == <<mvars, bvars>>

Next ==
    \/ \E b \in BatchT, m \in BOOLEAN, bud \in BudT : BCallStart(b, m, bud)
    \/ BPrepSkip \/ BPrepRefuse(E) \/ BPrepTimeout(E)
    \/ \E d \in Nat : BPrepRun(E, d)
    \/ \E d \in Nat : BPrepRetry(E, d)
    \/ \E i \in Nat, t \in BOOLEAN : BAnswer(E, i, t)
    \/ BSpawn
    \/ \E i \in Nat, t \in BOOLEAN : BWorkerDone(E, i, t)
    \/ \E i \in Nat : BWorkerLost(E, i)
    \/ BCallReturn(E) \/ BCallRaise

TypeOK ==
    /\ pc \in {"idle", "prep", "answer", "workers", "raise", "done"}
    /\ prep \in {"none", "done", "timedOut"}
    /\ batch \in BatchT /\ multi \in BOOLEAN
    /\ res \in Seq(ResT)
    /\ workers \subseteq DOMAIN batch
    /\ ncalls \in Nat

(* every collected result belongs to a batch position and carries that position's key, query and a right-or-flagged answer *)
ResOK == \A k \in DOMAIN res :
            /\ res[k].idx \in DOMAIN batch
            /\ res[k].key = batch[res[k].idx].key
            /\ res[k].q = batch[res[k].idx].q
            /\ (res[k].to => res[k].ans = "F")
            /\ (~res[k].to => res[k].ans = E.truth[res[k].q])

(* which positions have a result *)
Covered ==
    /\ (pc = "prep" => res = <<>>)
    /\ (pc = "workers" => prep = "done" /\ multi
                          /\ \A i \in DOMAIN batch : i \in workers \/ \E k \in DOMAIN res : res[k].idx = i)
    /\ (pc = "answer" /\ ~multi => Len(res) <= Len(batch) /\ \A k \in DOMAIN res : res[k].idx = k)
    /\ (pc = "answer" /\ multi => res = <<>>)

NoW == pc # "workers" => workers = {}

TabInit == ncalls = 0 => table = <<>>

IndInv == TypeOK /\ ResOK /\ Covered /\ NoW /\ RowsOwnKey(E) /\ TabInit /\ NoFaultRaise(E)

LEMMA RowType ==
    ASSUME TypeOK, NEW i \in DOMAIN batch, NEW t \in BOOLEAN, prep = "done"
    PROVE  /\ Row(E, i, t) \in ResT
           /\ Row(E, i, t).idx = i /\ Row(E, i, t).key = batch[i].key /\ Row(E, i, t).q = batch[i].q
           /\ (Row(E, i, t).to => Row(E, i, t).ans = "F")
           /\ (~Row(E, i, t).to => Row(E, i, t).ans = E.truth[Row(E, i, t).q])
  <1>1. batch[i] \in [key : K, q : Q] /\ i \in Nat BY DEF TypeOK, BatchT
  <1>2. E.truth[batch[i].q] \in {"T", "F"} BY <1>1, EnvOK
  <1>3. QED BY <1>1, <1>2 DEF Row, ResT

THEOREM InitInv == BInit => IndInv
  <1> SUFFICES ASSUME MInit PROVE IndInv BY DEF BInit
  <1>1. /\ pc = "idle" /\ prep = "none" /\ batch = <<>> /\ multi = FALSE
        /\ res = <<>> /\ workers = {} /\ table = <<>> /\ ncalls = 0
    BY DEF MInit
  <1>2. TypeOK BY <1>1 DEF TypeOK, BatchT
  <1>3. ResOK BY <1>1 DEF ResOK
  <1>4. Covered BY <1>1 DEF Covered
  <1>5. RowsOwnKey(E) BY <1>1 DEF RowsOwnKey
  <1>n. NoW BY <1>1 DEF NoW
  <1>m. TabInit /\ NoFaultRaise(E) BY <1>1 DEF TabInit, NoFaultRaise
  <1>6. QED BY <1>2, <1>3, <1>4, <1>5, <1>n, <1>m DEF IndInv

(* the row chosen for position i, once some result for i exists *)
LEMMA ChosenRow ==
    ASSUME TypeOK, ResOK, NEW i \in DOMAIN batch, \E k \in DOMAIN res : res[k].idx = i
    PROVE  LET r == CHOOSE r \in {res[k] : k \in DOMAIN res} : r.idx = i
           IN  /\ r.key = batch[i].key /\ r.q = batch[i].q
               /\ (r.to => r.ans = "F") /\ (~r.to => r.ans = E.truth[batch[i].q])
  <1> DEFINE S == {res[k] : k \in DOMAIN res}
             r == CHOOSE r \in S : r.idx = i
  <1>1. \E x \in S : x.idx = i OBVIOUS
  <1>2. r \in S /\ r.idx = i BY <1>1
  <1>3. PICK k \in DOMAIN res : r = res[k] BY <1>2
  <1>4. QED BY <1>2, <1>3 DEF ResOK

THEOREM NextInv == IndInv /\ [Next]_allvars => IndInv'
  <1> SUFFICES ASSUME IndInv, [Next]_allvars PROVE IndInv' OBVIOUS
  <1> USE DEF IndInv
  <1>t. batch \in BatchT /\ res \in Seq(ResT) BY DEF TypeOK
  <1>1. CASE UNCHANGED allvars
    BY <1>1 DEF allvars, mvars, TypeOK, ResOK, Covered, RowsOwnKey, NoW, TabInit, NoFaultRaise
  <1>2. ASSUME NEW b \in BatchT, NEW m \in BOOLEAN, CallStart(b, m) PROVE IndInv'
    <2>1. /\ pc = "idle" /\ batch' = b /\ multi' = m /\ res' = <<>> /\ pc' = "prep"
          /\ UNCHANGED <<prep, workers, table, ncalls>>
      BY <1>2 DEF CallStart
    <2>w. workers = {} BY <2>1 DEF NoW
    <2>2. TypeOK' BY <2>1, <2>w DEF TypeOK, BatchT
    <2>3. ResOK' BY <2>1 DEF ResOK
    <2>4. Covered' BY <2>1 DEF Covered
    <2>5. RowsOwnKey(E)' BY <2>1 DEF RowsOwnKey
    <2>n. NoW' BY <2>1, <2>w DEF NoW
    <2>m. TabInit' /\ NoFaultRaise(E)' BY <2>1 DEF TabInit, NoFaultRaise, TypeOK
    <2>6. QED BY <2>2, <2>3, <2>4, <2>5, <2>n, <2>m
  <1>3. CASE PrepSkip
    <2>1. /\ pc = "prep" /\ prep = "done" /\ pc' = "answer"
          /\ UNCHANGED <<prep, batch, multi, res, workers, table, ncalls>>
      BY <1>3 DEF PrepSkip
    <2>2. res = <<>> BY <2>1 DEF Covered
    <2>a. TypeOK' BY <2>1 DEF TypeOK
    <2>b. ResOK' BY <2>1, <2>2 DEF ResOK
    <2>c. Covered'
      <3>1. Len(res') = 0 /\ Len(batch') \in Nat /\ DOMAIN res' = {} BY <2>1, <2>2, <1>t DEF BatchT
      <3>2. QED BY <2>1, <2>2, <3>1 DEF Covered
    <2>d. RowsOwnKey(E)' BY <2>1 DEF RowsOwnKey
    <2>e. NoW' BY <2>1 DEF NoW
    <2>m. TabInit' /\ NoFaultRaise(E)' BY <2>1 DEF TabInit, NoFaultRaise, TypeOK
    <2>3. QED BY <2>a, <2>b, <2>c, <2>d, <2>e, <2>m
  <1>4. ASSUME /\ pc = "prep" /\ prep' = "done" /\ pc' = "answer"
               /\ UNCHANGED <<batch, multi, res, workers, table, ncalls>>
        PROVE  IndInv'
    <2>1. /\ pc = "prep" /\ prep' = "done" /\ pc' = "answer"
          /\ UNCHANGED <<batch, multi, res, workers, table, ncalls>>
      BY <1>4
    <2>2. res = <<>> BY <2>1 DEF Covered
    <2>a. TypeOK' BY <2>1 DEF TypeOK
    <2>b. ResOK' BY <2>1, <2>2 DEF ResOK
    <2>c. Covered'
      <3>1. Len(res') = 0 /\ Len(batch') \in Nat /\ DOMAIN res' = {} BY <2>1, <2>2, <1>t DEF BatchT
      <3>2. QED BY <2>1, <2>2, <3>1 DEF Covered
    <2>d. RowsOwnKey(E)' BY <2>1 DEF RowsOwnKey
    <2>e. NoW' BY <2>1 DEF NoW
    <2>m. TabInit' /\ NoFaultRaise(E)' BY <2>1 DEF TabInit, NoFaultRaise, TypeOK
    <2>3. QED BY <2>a, <2>b, <2>c, <2>d, <2>e, <2>m
  <1>5. CASE PrepRefuse(E)
    <2>1. /\ pc = "prep" /\ pc' = "raise" /\ ~E.cons
          /\ UNCHANGED <<prep, batch, multi, res, workers, table, ncalls>>
      BY <1>5 DEF PrepRefuse
    <2>2. QED BY <2>1 DEF TypeOK, ResOK, Covered, RowsOwnKey, NoW, TabInit, NoFaultRaise
  <1>6. CASE PrepTimeout(E)
    <2>1. /\ pc = "prep" /\ prep' = "timedOut" /\ pc' = "answer"
          /\ UNCHANGED <<batch, multi, res, workers, table, ncalls>>
      BY <1>6 DEF PrepTimeout
    <2>2. res = <<>> BY <2>1 DEF Covered
    <2>a. TypeOK' BY <2>1 DEF TypeOK
    <2>b. ResOK' BY <2>1, <2>2 DEF ResOK
    <2>c. Covered'
      <3>1. Len(res') = 0 /\ Len(batch') \in Nat /\ DOMAIN res' = {} BY <2>1, <2>2, <1>t DEF BatchT
      <3>2. QED BY <2>1, <2>2, <3>1 DEF Covered
    <2>d. RowsOwnKey(E)' BY <2>1 DEF RowsOwnKey
    <2>e. NoW' BY <2>1 DEF NoW
    <2>m. TabInit' /\ NoFaultRaise(E)' BY <2>1 DEF TabInit, NoFaultRaise, TypeOK
    <2>3. QED BY <2>a, <2>b, <2>c, <2>d, <2>e, <2>m
  <1>7. ASSUME NEW i \in Nat, NEW t \in BOOLEAN, Answer(E, i, t) PROVE IndInv'
    <2>1. /\ pc = "answer" /\ ~multi /\ prep = "done" /\ i = Len(res) + 1 /\ i <= Len(batch)
          /\ res' = Append(res, Row(E, i, t))
          /\ UNCHANGED <<pc, prep, batch, multi, workers, table, ncalls>>
      BY <1>7 DEF Answer
    <2>2. i \in DOMAIN batch BY <2>1, <1>t DEF BatchT
    <2>3. /\ Row(E, i, t) \in ResT
          /\ Row(E, i, t).idx = i /\ Row(E, i, t).key = batch[i].key /\ Row(E, i, t).q = batch[i].q
          /\ (Row(E, i, t).to => Row(E, i, t).ans = "F")
          /\ (~Row(E, i, t).to => Row(E, i, t).ans = E.truth[Row(E, i, t).q])
      BY <2>1, <2>2, RowType
    <2>4. TypeOK' BY <2>1, <2>3, <1>t DEF TypeOK
    <2>5. ResOK'
      <3> SUFFICES ASSUME NEW k \in DOMAIN res'
                   PROVE  /\ res'[k].idx \in DOMAIN batch'
                          /\ res'[k].key = batch'[res'[k].idx].key
                          /\ res'[k].q = batch'[res'[k].idx].q
                          /\ (res'[k].to => res'[k].ans = "F")
                          /\ (~res'[k].to => res'[k].ans = E.truth[res'[k].q])
        BY DEF ResOK
      <3>1. CASE k \in DOMAIN res
        <4>1. res'[k] = res[k] BY <2>1, <3>1, <1>t, <2>3
        <4>2. QED BY <4>1, <3>1, <2>1 DEF ResOK
      <3>2. CASE k \notin DOMAIN res
        <4>1. k = Len(res) + 1 /\ res'[k] = Row(E, i, t) BY <2>1, <3>2, <1>t, <2>3
        <4>2. QED BY <4>1, <2>1, <2>2, <2>3
      <3>3. QED BY <3>1, <3>2
    <2>6. Covered'
      <3>1. Len(res') = Len(res) + 1 /\ Len(res') <= Len(batch) BY <2>1, <1>t, <2>3
      <3>2. \A k \in DOMAIN res' : res'[k].idx = k
        <4> SUFFICES ASSUME NEW k \in DOMAIN res' PROVE res'[k].idx = k OBVIOUS
        <4>1. CASE k \in DOMAIN res
          BY <4>1, <2>1, <1>t, <2>3 DEF Covered
        <4>2. CASE k \notin DOMAIN res
          <5>1. k = Len(res) + 1 /\ res'[k] = Row(E, i, t) BY <2>1, <4>2, <1>t, <2>3
          <5>2. QED BY <5>1, <2>1, <2>3
        <4>3. QED BY <4>1, <4>2
      <3>3. QED BY <2>1, <3>1, <3>2 DEF Covered
    <2>7. RowsOwnKey(E)' BY <2>1 DEF RowsOwnKey
    <2>n. NoW' BY <2>1 DEF NoW
    <2>m. TabInit' /\ NoFaultRaise(E)' BY <2>1 DEF TabInit, NoFaultRaise, TypeOK
    <2>8. QED BY <2>4, <2>5, <2>6, <2>7, <2>n, <2>m
  <1>8. CASE Spawn
    <2>1. /\ pc = "answer" /\ multi /\ prep = "done" /\ res = <<>> /\ workers = {}
          /\ workers' = DOMAIN batch /\ pc' = "workers"
          /\ UNCHANGED <<prep, batch, multi, res, table, ncalls>>
      BY <1>8 DEF Spawn
    <2>2. QED BY <2>1 DEF TypeOK, ResOK, Covered, RowsOwnKey, NoW, TabInit, NoFaultRaise
  <1>9. ASSUME NEW i \in Nat, NEW t \in BOOLEAN, WorkerDone(E, i, t) PROVE IndInv'
    <2>1. /\ pc = "workers" /\ i \in workers
          /\ res' = Append(res, Row(E, i, t))
          /\ workers' = workers \ {i}
          /\ UNCHANGED <<pc, prep, batch, multi, table, ncalls>>
      BY <1>9 DEF WorkerDone
    <2>2. i \in DOMAIN batch /\ prep = "done" BY <2>1 DEF TypeOK, Covered
    <2>3. /\ Row(E, i, t) \in ResT
          /\ Row(E, i, t).idx = i /\ Row(E, i, t).key = batch[i].key /\ Row(E, i, t).q = batch[i].q
          /\ (Row(E, i, t).to => Row(E, i, t).ans = "F")
          /\ (~Row(E, i, t).to => Row(E, i, t).ans = E.truth[Row(E, i, t).q])
      BY <2>2, RowType
    <2>4. TypeOK' BY <2>1, <2>3, <1>t DEF TypeOK
    <2>5. ResOK'
      <3> SUFFICES ASSUME NEW k \in DOMAIN res'
                   PROVE  /\ res'[k].idx \in DOMAIN batch'
                          /\ res'[k].key = batch'[res'[k].idx].key
                          /\ res'[k].q = batch'[res'[k].idx].q
                          /\ (res'[k].to => res'[k].ans = "F")
                          /\ (~res'[k].to => res'[k].ans = E.truth[res'[k].q])
        BY DEF ResOK
      <3>1. CASE k \in DOMAIN res
        <4>1. res'[k] = res[k] BY <2>1, <3>1, <1>t, <2>3
        <4>2. QED BY <4>1, <3>1, <2>1 DEF ResOK
      <3>2. CASE k \notin DOMAIN res
        <4>1. k = Len(res) + 1 /\ res'[k] = Row(E, i, t) BY <2>1, <3>2, <1>t, <2>3
        <4>2. QED BY <4>1, <2>1, <2>2, <2>3
      <3>3. QED BY <3>1, <3>2
    <2>6. Covered'
      <3>1. \A j \in DOMAIN batch : j \in workers' \/ \E k \in DOMAIN res' : res'[k].idx = j
        <4> SUFFICES ASSUME NEW j \in DOMAIN batch, j \notin workers' PROVE \E k \in DOMAIN res' : res'[k].idx = j
          OBVIOUS
        <4>1. CASE j = i
          <5>1. Len(res) + 1 \in DOMAIN res' /\ res'[Len(res) + 1] = Row(E, i, t) BY <2>1, <1>t, <2>3
          <5>2. QED BY <5>1, <2>3, <4>1
        <4>2. CASE j # i
          <5>1. j \notin workers BY <2>1, <4>2
          <5>2. PICK k \in DOMAIN res : res[k].idx = j BY <5>1, <2>1 DEF Covered
          <5>3. k \in DOMAIN res' /\ res'[k] = res[k] BY <2>1, <1>t, <2>3
          <5>4. QED BY <5>2, <5>3
        <4>3. QED BY <4>1, <4>2
      <3>2. QED BY <2>1, <3>1 DEF Covered
    <2>7. RowsOwnKey(E)' BY <2>1 DEF RowsOwnKey
    <2>n. NoW' BY <2>1 DEF NoW
    <2>m. TabInit' /\ NoFaultRaise(E)' BY <2>1 DEF TabInit, NoFaultRaise, TypeOK
    <2>8. QED BY <2>4, <2>5, <2>6, <2>7, <2>n, <2>m
  <1>10. CASE CallReturn(E)
    <2>1. /\ pc \in {"answer", "workers"} /\ Complete
          /\ table' = [i \in DOMAIN batch |-> RowFor(E, i)]
          /\ pc' = "idle" /\ ncalls' = ncalls + 1
          /\ UNCHANGED <<prep, batch, multi, res, workers>>
      BY <1>10 DEF CallReturn
    <2>2. TypeOK' BY <2>1 DEF TypeOK
    <2>3. ResOK' BY <2>1 DEF ResOK
    <2>4. Covered' BY <2>1 DEF Covered
    <2>5. RowsOwnKey(E)'
      <3>1. DOMAIN batch = 1..Len(batch) BY <1>t DEF BatchT
      <3>n. Len(batch) \in Nat BY <1>t DEF BatchT
      <3>2. Len(table') = Len(batch') /\ DOMAIN table' = DOMAIN batch
        <4>1. table' = [i \in 1..Len(batch) |-> RowFor(E, i)] BY <2>1, <3>1
        <4>2. DOMAIN table' = 1..Len(batch) BY <4>1
        <4>3. Len(table') = Len(batch) BY <4>1, <3>n, SMT
        <4>4. QED BY <4>2, <4>3, <3>1, <2>1
      <3>3. ASSUME NEW i \in DOMAIN batch
            PROVE  /\ table'[i].key = batch[i].key
                   /\ table'[i].text = E.text[batch[i].q]
                   /\ (~table'[i].to /\ ~table'[i].pto => table'[i].ans = E.truth[batch[i].q])
                   /\ (table'[i].to \/ table'[i].pto => table'[i].ans = "F")
        <4>1. table'[i] = RowFor(E, i) BY <2>1
        <4>2. CASE prep = "timedOut"
          BY <4>1, <4>2 DEF RowFor
        <4>3. CASE prep # "timedOut"
          <5>1. Len(res) = Len(batch) /\ workers = {} /\ (multi => pc = "workers" \/ Len(batch) = 0)
            BY <2>1, <4>3 DEF Complete
          <5>2. \E k \in DOMAIN res : res[k].idx = i
            <6>1. CASE pc = "workers"
              BY <6>1, <5>1 DEF Covered
            <6>2. CASE pc = "answer" /\ ~multi
              <7>1. i \in DOMAIN res BY <5>1, <3>1, <1>t
              <7>2. res[i].idx = i BY <6>2, <7>1 DEF Covered
              <7>3. QED BY <7>1, <7>2
            <6>3. CASE pc = "answer" /\ multi
              <7>1. Len(batch) = 0 BY <6>3, <5>1
              <7>2. QED BY <7>1, <3>1
            <6>4. QED BY <6>1, <6>2, <6>3, <2>1 DEF TypeOK
          <5> DEFINE r == CHOOSE r \in {res[k] : k \in DOMAIN res} : r.idx = i
          <5>3. /\ r.key = batch[i].key /\ r.q = batch[i].q
                /\ (r.to => r.ans = "F") /\ (~r.to => r.ans = E.truth[batch[i].q])
            BY <5>2, ChosenRow
          <5>4. RowFor(E, i) = [key |-> r.key, text |-> E.text[r.q], ans |-> r.ans, to |-> r.to, pto |-> FALSE]
            BY <4>3, ByIndex DEF RowFor
          <5>5. QED BY <4>1, <5>3, <5>4
        <4>4. QED BY <4>2, <4>3
      <3>4. QED BY <2>1, <3>2, <3>3 DEF RowsOwnKey
    <2>n. NoW'
      <3>1. CASE prep = "timedOut"
        BY <2>1, <3>1 DEF NoW, Covered
      <3>2. CASE prep # "timedOut"
        BY <2>1, <3>2 DEF NoW, Complete
      <3>3. QED BY <3>1, <3>2
    <2>m. TabInit' /\ NoFaultRaise(E)' BY <2>1 DEF TabInit, NoFaultRaise, TypeOK
    <2>6. QED BY <2>2, <2>3, <2>4, <2>5, <2>n, <2>m
  <1>11. CASE CallRaise
    <2>1. /\ pc = "raise" /\ pc' = "idle" /\ ncalls' = ncalls + 1 /\ table' = <<>>
          /\ UNCHANGED <<prep, batch, multi, res, workers>>
      BY <1>11 DEF CallRaise
    <2>2. QED BY <2>1 DEF TypeOK, ResOK, Covered, RowsOwnKey, NoW, TabInit, NoFaultRaise
  <1>12. QED
    <2>1. CASE \E b \in BatchT, m \in BOOLEAN, bud \in BudT : BCallStart(b, m, bud)
      BY <2>1, <1>2 DEF BCallStart
    <2>2. CASE BPrepSkip BY <2>2, <1>3 DEF BPrepSkip
    <2>3. CASE BPrepRefuse(E) BY <2>3, <1>5 DEF BPrepRefuse
    <2>4. CASE BPrepTimeout(E) BY <2>4, <1>6 DEF BPrepTimeout
    <2>5. CASE \E d \in Nat : BPrepRun(E, d) BY <2>5, <1>4 DEF BPrepRun, PrepRun
    <2>6. CASE \E d \in Nat : BPrepRetry(E, d) BY <2>6, <1>4 DEF BPrepRetry
    <2>7. CASE \E i \in Nat, t \in BOOLEAN : BAnswer(E, i, t) BY <2>7, <1>7 DEF BAnswer
    <2>8. CASE BSpawn BY <2>8, <1>8 DEF BSpawn
    <2>9. CASE \E i \in Nat, t \in BOOLEAN : BWorkerDone(E, i, t) BY <2>9, <1>9 DEF BWorkerDone
    <2>10. CASE \E i \in Nat : BWorkerLost(E, i)
      <3>1. PICK i \in Nat : WorkerLost(E, i) BY <2>10 DEF BWorkerLost
      <3>2. WorkerDone(E, i, TRUE) BY <3>1 DEF WorkerLost, WorkerDone
      <3>3. QED BY <3>2, <1>9
    <2>11. CASE BCallReturn(E) BY <2>11, <1>10 DEF BCallReturn
    <2>12. CASE BCallRaise BY <2>12, <1>11 DEF BCallRaise
    <2>13. QED BY <1>1, <2>1, <2>2, <2>3, <2>4, <2>5, <2>6, <2>7, <2>8, <2>9, <2>10, <2>11, <2>12 DEF Next

THEOREM Implies ==
    ASSUME IndInv PROVE NoUnflaggedWrong(E) /\ NoFaultRaise(E)
  <1>1. NoFaultRaise(E) BY DEF IndInv
  <1>2. NoUnflaggedWrong(E)
    <2> SUFFICES ASSUME pc = "idle", table # <<>>, NEW i \in DOMAIN table
                 PROVE  \/ (table[i].to \/ table[i].pto) /\ table[i].ans = "F"
                        \/ ~table[i].to /\ ~table[i].pto /\ table[i].ans = E.truth[batch[i].q]
      BY DEF NoUnflaggedWrong
    <2>1. ncalls # 0 BY DEF IndInv, TabInit
    <2>2. ncalls > 0 BY <2>1 DEF IndInv, TypeOK
    <2>3. /\ (~table[i].to /\ ~table[i].pto => table[i].ans = E.truth[batch[i].q])
          /\ (table[i].to \/ table[i].pto => table[i].ans = "F")
      BY <2>2 DEF IndInv, RowsOwnKey
    <2>4. QED BY <2>3
  <1>3. QED BY <1>1, <1>2

THEOREM Safety == BInit /\ [][Next]_allvars => [](NoUnflaggedWrong(E) /\ NoFaultRaise(E))
  <1>1. IndInv => NoUnflaggedWrong(E) /\ NoFaultRaise(E) BY Implies
  <1>2. QED BY InitInv, NextInv, <1>1, PTL
=============================================================================
