-------------------------------- MODULE Budget --------------------------------
(***************************************************************************)
(* Time budgets (C14): the Manager machine composed with a virtual clock.  *)
(*                                                                         *)
(* Budgets are <<total, prep, per>> in milliseconds, 0 = unlimited, as     *)
(* InferenceManager.inference documents and computes them:                 *)
(*   preprocessing gets  min(total, prep)   (total if only total is given) *)
(*   each query gets     min(total - prepTime, per)  (total - prepTime if  *)
(*                       only total is given), prepTime = accumulated      *)
(*                       preprocessing time of this manager                *)
(* A non-positive remaining budget that is not exactly 0 means "expired at *)
(* once"; exactly 0 means unlimited (as coded: `if timeout`).              *)
(*                                                                         *)
(* Faults: at every point where the running step can observe the clock     *)
(* (obs counts them) the deadline may turn out to have passed, or the      *)
(* solver may have given up; the step then ends as timed out.  The only    *)
(* admissible effects are a flagged row with answer "F" (query) or the     *)
(* preprocessing-timed-out flag on every row; never an exception, never an *)
(* unflagged wrong answer, and nothing carried over to other queries.      *)
(***************************************************************************)
EXTENDS Manager, Integers

VARIABLES budgets,   \* <<total, prep, per>> of the running call (ms)
          prepTime,  \* accumulated preprocessing time of the manager (ms)
          qBudget    \* deadline duration handed to each query of the running call (ms; 0 = none)

bvars == <<budgets, prepTime, qBudget>>

Min2(a, b) == IF a <= b THEN a ELSE b

PrepBudget(b) == IF b[1] # 0 /\ b[2] # 0 THEN Min2(b[1], b[2]) ELSE IF b[1] # 0 THEN b[1] ELSE b[2]
QueryBudget(b, pt) == IF b[1] # 0 /\ b[3] # 0 THEN Min2(b[1] - pt, b[3]) ELSE IF b[1] # 0 THEN b[1] - pt ELSE b[3]

BInit == MInit /\ budgets = <<0, 0, 0>> /\ prepTime = 0 /\ qBudget = 0

BCallStart(b, m, bud) ==
    /\ CallStart(b, m) /\ budgets' = bud /\ UNCHANGED <<prepTime, qBudget>>

BPrepSkip == PrepSkip /\ qBudget' = QueryBudget(budgets, prepTime) /\ UNCHANGED <<budgets, prepTime>>
BPrepRefuse(E) == PrepRefuse(E) /\ UNCHANGED bvars

(* preprocessing takes d ms; it can only time out if it has a budget and an  *)
(* observation point saw the deadline passed                                  *)
BPrepRun(E, d) ==
    /\ PrepRun(E)
    /\ prepTime' = prepTime + d
    /\ qBudget' = QueryBudget(budgets, prepTime')
    /\ UNCHANGED budgets
BPrepTimeout(E) ==
    /\ PrepBudget(budgets) # 0
    /\ PrepTimeout(E)
    /\ prepTime' = PrepBudget(budgets)          \* as coded: set to the budget
    /\ qBudget' = QueryBudget(budgets, prepTime')
    /\ UNCHANGED budgets

(* a query may end as timed out only if it was given a deadline *)
BAnswer(E, i, timedOut) == (timedOut => qBudget # 0) /\ Answer(E, i, timedOut) /\ UNCHANGED bvars
BSpawn == Spawn /\ UNCHANGED bvars
BWorkerDone(E, i, timedOut) == (timedOut => qBudget # 0) /\ WorkerDone(E, i, timedOut) /\ UNCHANGED bvars
BCallReturn(E) == CallReturn(E) /\ UNCHANGED bvars

(* parallel evaluation: a worker that does not deliver within its budget is *)
(* terminated by the join; its query is reported as timed out, the rows of  *)
(* the other queries are unaffected and no process is left behind           *)
WorkerLost(E, i) ==
    /\ pc = "workers" /\ i \in workers /\ qBudget # 0
    /\ res' = Append(res, Row(E, i, TRUE))
    /\ workers' = workers \ {i}
    /\ UNCHANGED <<pc, prep, batch, multi, table, ncalls>>
BWorkerLost(E, i) == WorkerLost(E, i) /\ UNCHANGED bvars
BCallRaise == CallRaise /\ UNCHANGED bvars

(* after a preprocessing time-out the next call preprocesses again *)
BPrepRetry(E, d) ==
    /\ pc = "prep" /\ prep = "timedOut" /\ E.cons
    /\ prep' = "done" /\ pc' = "answer"
    /\ prepTime' = prepTime + d /\ qBudget' = QueryBudget(budgets, prepTime')
    /\ UNCHANGED <<batch, multi, res, workers, table, ncalls, budgets>>

-----------------------------------------------------------------------------
(* C14 as a state invariant: every reported row is flagged (answer "F") or *)
(* carries the answer of a run without budgets                             *)
NoUnflaggedWrong(E) ==
    (pc = "idle" /\ table # <<>>) =>
        \A i \in DOMAIN table :
            \/ (table[i].to \/ table[i].pto) /\ table[i].ans = "F"
            \/ ~table[i].to /\ ~table[i].pto /\ table[i].ans = E.truth[batch[i].q]

(* an expiry is never reported by an exception: the only way into "raise"  *)
(* is the refusal of an empty / inconsistent base                          *)
NoFaultRaise(E) == pc = "raise" => ~E.cons
=============================================================================
