------------------------------- MODULE Universe -------------------------------
(***************************************************************************)
(* The small universes that TLC enumerates exhaustively: all semantic      *)
(* conditionals over NW worlds, numbered 0..3^NW-1 (base-3 digits, world 1 *)
(* most significant), and bases as nondecreasing sequences of such numbers *)
(* (a base is a multiset of conditionals; order and keys carry no meaning).*)
(***************************************************************************)
EXTENDS Naturals, Sequences

CONSTANT NW

WS == 1..NW
RECURSIVE Pow3(_)
Pow3(n) == IF n = 0 THEN 1 ELSE 3 * Pow3(n - 1)
NC == Pow3(NW)
CondOf(i) == [w \in WS |-> (i \div Pow3(NW - w)) % 3]
AllQ == {CondOf(i) : i \in 0..(NC - 1)}

RECURSIVE SortedSeqs(_, _)
(* nondecreasing index sequences of length n with entries >= lo *)
SortedSeqs(n, lo) ==
    IF n = 0 THEN {<<>>}
    ELSE UNION {{<<i>> \o s : s \in SortedSeqs(n - 1, i)} : i \in lo..(NC - 1)}

BasesUpTo(m) == UNION {SortedSeqs(n, 0) : n \in 1..m}
BaseOf(idx) == [k \in DOMAIN idx |-> CondOf(idx[k])]
=============================================================================
