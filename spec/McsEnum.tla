------------------------------- MODULE McsEnum -------------------------------
(***************************************************************************)
(* The minimal-correction-subset enumeration loop as the code structures   *)
(* it (OptimizerRC2.minimal_correction_subsets, get_all_xi_i of the z3     *)
(* back-ends): repeatedly obtain a model of the hard constraints, record   *)
(* the set of conditionals it falsifies, block that set and all its        *)
(* supersets, until no model is left; finally drop supersets.              *)
(*                                                                         *)
(* The family Fam is the set of falsification sets of the assignments      *)
(* satisfying the hard constraints.  WHICH model the solver returns next   *)
(* is left completely open (any unblocked member), so the properties hold  *)
(* for every SAT engine and every enumeration order (C11, C15).            *)
(*                                                                         *)
(* Filter = "sorted" is the specification (remove_supersets sorts by size  *)
(* before filtering); Filter = "asFound" models the filter applied in      *)
(* enumeration order, which TLC shows to return non-minimal sets.          *)
(***************************************************************************)
EXTENDS Naturals, Sequences, FiniteSets, TLC

CONSTANT Filter     \* "sorted" | "asFound"

VARIABLES fam,      \* the family being enumerated (a set of sets of keys)
          found,    \* sets recorded so far, in the order the solver produced them
          phase,    \* "loop" | "done"
          result    \* returned list (a sequence of sets)

evars == <<fam, found, phase, result>>

Blocked(S) == \E i \in DOMAIN found : found[i] \subseteq S
Remaining  == {S \in fam : ~Blocked(S)}
MinimalOf(F) == {a \in F : ~\E b \in F : b # a /\ b \subseteq a}

EInit(F) == fam = F /\ found = <<>> /\ phase = "loop" /\ result = <<>>

(* one solver model: any assignment not yet excluded by the blocking clauses *)
Model(S) ==
    /\ phase = "loop" /\ S \in Remaining
    /\ found' = Append(found, S)
    /\ UNCHANGED <<fam, phase, result>>

(* What the real loop may report for a model.  The reported set is read off *)
(* the violated soft CLAUSES; with auxiliary (Tseitin / stale selector)     *)
(* variables a clause of a conditional can be violated although the         *)
(* model's atoms do not falsify that conditional, whenever that is          *)
(* cost-neutral.  Observed on the real code (lexicographic inference, rc2:  *)
(* the WCNF handed down the recursion keeps selector literals appended by   *)
(* an earlier RC2 instance, which alias pool ids of other conditionals).    *)
(* The property (C15) constrains the RESULT, so the step-level obligation   *)
(* is only: the reported set contains the falsification set of some         *)
(* assignment satisfying the hard clauses, and is not blocked.              *)
ModelReported(S) ==
    /\ phase = "loop" /\ ~Blocked(S)
    /\ \E F \in fam : F \subseteq S
    /\ found' = Append(found, S)
    /\ UNCHANGED <<fam, phase, result>>

RECURSIVE FilterSeq(_, _)
(* keep an element iff no element kept before it is a subset of it *)
FilterSeq(s, kept) ==
    IF s = <<>> THEN kept
    ELSE IF \E i \in DOMAIN kept : kept[i] \subseteq Head(s) THEN FilterSeq(Tail(s), kept)
    ELSE FilterSeq(Tail(s), Append(kept, Head(s)))

RECURSIVE SortBySize(_)
SortBySize(s) ==
    IF s = <<>> THEN <<>>
    ELSE LET m == CHOOSE i \in DOMAIN s : \A j \in DOMAIN s : Cardinality(s[i]) <= Cardinality(s[j])
         IN  <<s[m]>> \o SortBySize([k \in 1..(Len(s) - 1) |-> IF k < m THEN s[k] ELSE s[k + 1]])

(* the solver reports unsat: nothing is left; supersets are removed *)
Finish ==
    /\ phase = "loop" /\ Remaining = {}
    /\ result' = FilterSeq(IF Filter = "sorted" THEN SortBySize(found) ELSE found, <<>>)
    /\ phase' = "done"
    /\ UNCHANGED <<fam, found>>

-----------------------------------------------------------------------------
ResultSet == {result[i] : i \in DOMAIN result}
(* exactly the inclusion-minimal members of the family, each once *)
Exact == phase = "done" => ResultSet = MinimalOf(fam) /\ Len(result) = Cardinality(ResultSet)
(* a recorded set is never a superset of an earlier one (the blocking clauses work) *)
NoSupersetOfEarlier == \A i, j \in DOMAIN found : i < j => ~(found[i] \subseteq found[j])
(* termination: the loop can always finish, after at most |fam| models *)
Bounded == Len(found) <= Cardinality(fam)
=============================================================================
