------------------------------- MODULE McsEnum -------------------------------
(***************************************************************************)
(* The minimal-correction-subset enumeration loop as the code structures   *)
(* it (OptimizerRC2.minimal_correction_subsets, get_all_xi_i of the z3     *)
(* back-ends): repeatedly obtain a model of the hard constraints, record   *)
(* the set of conditionals it falsifies, block that set and all its        *)
(* supersets, until no model is left; finally drop supersets.              *)
(*                                                                         *)
(* The family Fam is the set of falsification sets of the assignments      *)
(* satisfying the hard constraints.  WHICH model the solver returns next   *)
(* is left completely open (any unblocked member), so the properties hold  *)
(* for every SAT engine and every enumeration order (C11, C15).            *)
(*                                                                         *)
(* Filter = "sorted" is the specification (remove_supersets sorts by size  *)
(* before filtering); Filter = "asFound" models the filter applied in      *)
(* enumeration order, which TLC shows to return non-minimal sets.          *)
(***************************************************************************)
EXTENDS McsEnumCore

CONSTANT Filter     \* "sorted" | "asFound"

RECURSIVE FilterSeq(_, _)
(* keep an element iff no element kept before it is a subset of it *)
FilterSeq(s, kept) ==
    IF s = <<>> THEN kept
    ELSE IF \E i \in DOMAIN kept : kept[i] \subseteq Head(s) THEN FilterSeq(Tail(s), kept)
    ELSE FilterSeq(Tail(s), Append(kept, Head(s)))

RECURSIVE SortBySize(_)
SortBySize(s) ==
    IF s = <<>> THEN <<>>
    ELSE LET m == CHOOSE i \in DOMAIN s : \A j \in DOMAIN s : Cardinality(s[i]) <= Cardinality(s[j])
         IN  <<s[m]>> \o SortBySize([k \in 1..(Len(s) - 1) |-> IF k < m THEN s[k] ELSE s[k + 1]])

(* the solver reports unsat: nothing is left; supersets are removed *)
Finish ==
    /\ phase = "loop" /\ Remaining = {}
    /\ result' = FilterSeq(IF Filter = "sorted" THEN SortBySize(found) ELSE found, <<>>)
    /\ phase' = "done"
    /\ UNCHANGED <<fam, found>>

-----------------------------------------------------------------------------
ResultSet == {result[i] : i \in DOMAIN result}
(* exactly the inclusion-minimal members of the family, each once *)
Exact == phase = "done" => ResultSet = MinimalOf(fam) /\ Len(result) = Cardinality(ResultSet)
(* termination: the loop can always finish, after at most |fam| models *)
Bounded == Len(found) <= Cardinality(fam)
=============================================================================
