----------------------------- MODULE Trace_Manager -----------------------------
(***************************************************************************)
(* Trace validation for the Manager machine.  TRACE_FILE is a JSON array   *)
(* of traces, one per manager object:                                      *)
(*   [env |-> [truth, text, cons], events |-> <<...>>]                     *)
(* Events (written by harness/tracer.py at the return of the wrapped       *)
(* calls, in one global order):                                            *)
(*   call    batch (<<key, q>> each), multi                                *)
(*   prep    outcome  "skip" | "run" | "refuse" | "timeout"                *)
(*   answer  q, result ("T"/"F"), to                                       *)
(*   return  rows (<<key, text, ans, to, pto>> each), children,            *)
(*           cfg, cols (descriptive columns of each row)                   *)
(*   raise   exc                                                           *)
(* Each event must be matched by the Manager action of the same name with  *)
(* the logged fields bound; what is not logged (which batch position an    *)
(* answer belongs to) is left to the action's own nondeterminism.  A trace *)
(* whose next event cannot be matched is rejected: one JSON line names the *)
(* trace, the event and the model state, and TLC goes on with the others.  *)
(***************************************************************************)
EXTENDS Manager, Json, IOUtils

VARIABLES t, l
tvars == <<t, l, pc, prep, batch, multi, res, workers, table, ncalls>>

Log == JsonDeserialize(IOEnv.TRACE_FILE)
NT  == Len(Log)
E   == Log[t].env
Ev  == Log[t].events
Cur == Ev[l]

IsEvent(name) == t > 0 /\ l <= Len(Ev) /\ Cur.ev = name /\ l' = l + 1 /\ t' = t

BatchOf(e) == [i \in DOMAIN e.batch |-> [key |-> e.batch[i][1], q |-> e.batch[i][2]]]

TCall == IsEvent("call") /\ CallStart(BatchOf(Cur), Cur.multi)

TPrep ==
    /\ IsEvent("prep")
    /\ CASE Cur.outcome = "skip"    -> PrepSkip
         [] Cur.outcome = "run"     -> PrepRun(E)
         [] Cur.outcome = "refuse"  -> PrepRefuse(E)
         [] Cur.outcome = "timeout" -> PrepTimeout(E)
         [] OTHER -> FALSE

(* sequential: the spec action itself.  parallel: Spawn is not observable  *)
(* from outside, so the first worker event is matched by Spawn \cdot       *)
(* WorkerDone, written out explicitly.                                     *)
TAnswer ==
    /\ IsEvent("answer")
    /\ \/ /\ ~multi
          /\ \E i \in DOMAIN batch :
                /\ Answer(E, i, Cur.to)
                /\ batch[i].q = Cur.q
                /\ res'[Len(res')].ans = Cur.result
       \/ /\ multi /\ prep = "done"
          /\ pc \in {"answer", "workers"} /\ (pc = "answer" => res = <<>> /\ workers = {})
          /\ LET ws == IF pc = "answer" THEN DOMAIN batch ELSE workers
             IN  \E i \in ws :
                    /\ batch[i].q = Cur.q
                    /\ Row(E, i, Cur.to).ans = Cur.result
                    /\ res' = Append(res, Row(E, i, Cur.to))
                    /\ workers' = ws \ {i}
                    /\ pc' = "workers"
                    /\ UNCHANGED <<prep, batch, multi, table, ncalls>>

RowsMatch(rows, tab) ==
    /\ Len(rows) = Len(tab)
    /\ \A i \in 1..Len(rows) :
          /\ rows[i][1] = tab[i].key /\ rows[i][2] = tab[i].text /\ rows[i][3] = tab[i].ans
          /\ rows[i][4] = tab[i].to /\ rows[i][5] = tab[i].pto

(* the descriptive columns of every row repeat the manager's configuration (signature size, number of     *)
(* conditionals, operator, solvers, names of base and batch); the reported times are non-negative          *)
StaticOK(e) ==
    IF "cfg" \in DOMAIN e
    THEN /\ Len(e.cols) = Len(e.rows)
         /\ \A i \in DOMAIN e.cols :
               /\ \A j \in 1..7 : e.cols[i][j] = e.cfg[j]
               /\ e.cols[i][8] /\ e.cols[i][9]
    ELSE TRUE

TReturn ==
    /\ IsEvent("return")
    /\ CallReturn(E)
    /\ RowsMatch(Cur.rows, table')
    /\ StaticOK(Cur)
    /\ Cur.children = 0                       \* no worker process is left behind

TRaise == IsEvent("raise") /\ CallRaise

(* a fresh operator instance per call, of the class the configuration prescribes *)
TInstance == IsEvent("instance") /\ pc = "prep" /\ Cur.cls = ClassFor(Cur.system, Cur.backend) /\ UNCHANGED mvars

TMatch == TCall \/ TInstance \/ TPrep \/ TAnswer \/ TReturn \/ TRaise

Reject ==
    /\ t > 0 /\ l <= Len(Ev) /\ ~ENABLED TMatch
    /\ PrintT(ToJson([reject |-> t, at |-> l, event |-> Cur,
                      state |-> [pc |-> pc, prep |-> prep, multi |-> multi, nres |-> Len(res), workers |-> workers, ncalls |-> ncalls]]))
    /\ l' = Len(Ev) + 2 /\ t' = t
    /\ UNCHANGED mvars

Accept == /\ t > 0 /\ l = Len(Ev) + 1 /\ pc = "idle" /\ workers = {}
          /\ PrintT(ToJson([accept |-> t]))
          /\ l' = Len(Ev) + 3 /\ t' = t /\ UNCHANGED mvars
(* a trace that ends in the middle of a call *)
Truncated ==
    /\ t > 0 /\ l = Len(Ev) + 1 /\ ~(pc = "idle" /\ workers = {})
    /\ PrintT(ToJson([reject |-> t, at |-> l, event |-> "end of trace inside a call", state |-> [pc |-> pc, workers |-> workers]]))
    /\ l' = Len(Ev) + 2 /\ t' = t /\ UNCHANGED mvars

PickTrace == t = 0 /\ t' \in 1..NT /\ l' = 1 /\ UNCHANGED mvars

TInit == t = 0 /\ l = 0 /\ MInit
TNext == PickTrace \/ TMatch \/ Reject \/ Accept \/ Truncated
TraceSpec == TInit /\ [][TNext]_tvars

(* the Manager invariants are evaluated in every state of every trace *)
TraceRowsOK == t > 0 => RowsOwnKey(E)
TraceNoLeak == NoWorkersOutsideCall
=============================================================================
