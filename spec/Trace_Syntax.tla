------------------------------ MODULE Trace_Syntax ------------------------------
(***************************************************************************)
(* Validation of recorded parser calls against the recognizer-with-meaning *)
(* of InfOCFSyntax (file level and formula level).                         *)
(* Log (env TRACE_FILE): JSON array of records                             *)
(*   ev = "file"    tokens, ok, sig, conds (<<mask(B), mask(A)>> each)     *)
(*   ev = "queries" tokens, ok, conds                                      *)
(*   ev = "formula" tokens, code   (-1 rejected, else truth-table mask)    *)
(***************************************************************************)
EXTENDS InfOCFSyntax, Json, IOUtils

VARIABLES l, st
vars == <<l, st>>
Log == JsonDeserialize(IOEnv.TRACE_FILE)
N   == Len(Log)

SeqEq(a, b) == Len(a) = Len(b) /\ \A i \in 1..Len(a) : a[i] = b[i]
CondsEq(a, b) == Len(a) = Len(b) /\ \A i \in 1..Len(a) : a[i][1] = b[i][1] /\ a[i][2] = b[i][2]

Rej(ok, x) == IF ok THEN TRUE ELSE PrintT(ToJson([reject |-> l, exp |-> x]))

Check(e) ==
    CASE e.ev = "file" ->
            LET x == ParseBase(e.tokens)
            IN  Rej(x.ok = e.ok /\ (x.ok => SeqEq(x.sig, e.sig) /\ CondsEq(x.conds, e.conds)),
                    [ok |-> x.ok, sig |-> x.sig, conds |-> x.conds])
      [] e.ev = "queries" ->
            LET x == ParseQueries(e.tokens)
            IN  Rej(x.ok = e.ok /\ (x.ok => CondsEq(x.conds, e.conds)), [ok |-> x.ok, conds |-> x.conds])
      [] e.ev = "formula" -> Rej(Code(e.tokens) = e.code, [code |-> Code(e.tokens)])
      [] OTHER -> Rej(FALSE, "known event kind")

Init == l = 0 /\ st = 0
Pick == st = 0 /\ l' \in 1..N /\ st' = 1
Eval == st = 1 /\ Check(Log[l]) /\ st' = 2 /\ UNCHANGED l
Next == Pick \/ Eval
Spec == Init /\ [][Next]_vars
=============================================================================
