------------------------------- MODULE Manager -------------------------------
(***************************************************************************)
(* The InferenceManager machine (stratum M), structured like               *)
(* inference_manager.py / inference.py:                                    *)
(*                                                                         *)
(*   CallStart -> (PrepSkip | PrepRun | PrepRefuse | PrepTimeout)           *)
(*             -> sequential: Answer(1), Answer(2), ... in submission order *)
(*                parallel:   Spawn; WorkerDone(i) in ANY order; Join       *)
(*             -> CallReturn | CallRaise                                    *)
(*                                                                         *)
(* One manager object lives across calls: `prep` (preprocessing cached in  *)
(* the epistemic state) persists, a new operator instance is created per   *)
(* call.  What a query's row may contain is fixed by the environment E:    *)
(*   E.truth[q]  the stratum-S answer of query q ("T"/"F")                  *)
(*   E.text[q]   its text representation                                    *)
(*   E.cons      base non-empty and consistent for the selected mode        *)
(* E is a parameter (not a CONSTANT) so that one TLC run can validate many *)
(* recorded traces, each with its own environment.                         *)
(*                                                                         *)
(* Plumbing = "byIndex" is the specification.  Plumbing = "byText" models  *)
(* the result plumbing as originally coded (results keyed by query text,   *)
(* rows rebuilt by looking the text up): MC_Manager shows that it violates *)
(* RowsOwnKey as soon as a batch contains two queries with the same text.  *)
(***************************************************************************)
EXTENDS Naturals, Sequences, FiniteSets, TLC

CONSTANT Plumbing          \* "byIndex" | "byText"

VARIABLES pc,       \* "idle" | "prep" | "answer" | "workers" | "raise" | "done"
          prep,     \* "none" | "done" | "timedOut"       (persists across calls)
          batch,    \* sequence of [key, q]                (the submitted queries)
          multi,    \* BOOLEAN
          res,      \* results collected so far: sequence of [idx, key, q, ans, to]
          workers,  \* indices of live worker processes
          table,    \* rows returned by the last call
          ncalls    \* number of completed calls

mvars == <<pc, prep, batch, multi, res, workers, table, ncalls>>

(* configuration mapping (inference_manager.create_inference_instance): which operator class serves a call.  *)
(* p-entailment and System Z have no MaxSAT back-end; System W and lex use the z3 classes exactly for "z3".   *)
ClassFor(sys, backend) ==
    CASE sys = "p-entailment" -> "PEntailment"
      [] sys = "system-z"     -> "SystemZ"
      [] sys = "system-w"     -> IF backend = "z3" THEN "SystemWZ3" ELSE "SystemW"
      [] sys = "lex_inf"      -> IF backend = "z3" THEN "LexInfZ3" ELSE "LexInf"
      [] sys = "c-inference"  -> "CInference"
      [] OTHER -> "error"

MInit ==
    /\ pc = "idle" /\ prep = "none" /\ batch = <<>> /\ multi = FALSE
    /\ res = <<>> /\ workers = {} /\ table = <<>> /\ ncalls = 0

CallStart(b, m) ==
    /\ pc = "idle"
    /\ batch' = b /\ multi' = m /\ res' = <<>> /\ pc' = "prep"
    /\ UNCHANGED <<prep, workers, table, ncalls>>

(* preprocessing: skipped iff already done; refused iff the base is empty or *)
(* inconsistent for the mode; may time out (C14); otherwise runs once        *)
PrepSkip ==
    /\ pc = "prep" /\ prep = "done" /\ pc' = "answer"
    /\ UNCHANGED <<prep, batch, multi, res, workers, table, ncalls>>
PrepRefuse(E) ==
    /\ pc = "prep" /\ prep # "done" /\ ~E.cons /\ pc' = "raise"
    /\ UNCHANGED <<prep, batch, multi, res, workers, table, ncalls>>
PrepRun(E) ==
    /\ pc = "prep" /\ prep = "none" /\ E.cons /\ prep' = "done" /\ pc' = "answer"
    /\ UNCHANGED <<batch, multi, res, workers, table, ncalls>>
PrepTimeout(E) ==
    /\ pc = "prep" /\ prep = "none" /\ E.cons /\ prep' = "timedOut" /\ pc' = "answer"
    /\ UNCHANGED <<batch, multi, res, workers, table, ncalls>>

Row(E, i, timedOut) ==
    [idx |-> i, key |-> batch[i].key, q |-> batch[i].q,
     ans |-> IF timedOut \/ prep = "timedOut" THEN "F" ELSE E.truth[batch[i].q],
     to |-> timedOut]

(* sequential evaluation: strictly in submission order *)
Answer(E, i, timedOut) ==
    /\ pc = "answer" /\ ~multi /\ prep = "done"
    /\ i = Len(res) + 1 /\ i <= Len(batch)
    /\ res' = Append(res, Row(E, i, timedOut))
    /\ UNCHANGED <<pc, prep, batch, multi, workers, table, ncalls>>

(* parallel evaluation: one worker per query, completion in any order *)
Spawn ==
    /\ pc = "answer" /\ multi /\ prep = "done" /\ res = <<>> /\ workers = {}
    /\ workers' = DOMAIN batch /\ pc' = "workers"
    /\ UNCHANGED <<prep, batch, multi, res, table, ncalls>>
WorkerDone(E, i, timedOut) ==
    /\ pc = "workers" /\ i \in workers
    /\ res' = Append(res, Row(E, i, timedOut))
    /\ workers' = workers \ {i}
    /\ UNCHANGED <<pc, prep, batch, multi, table, ncalls>>

(* the table handed back: one row per submitted query, in submission order *)
RowFor(E, i) ==
    IF prep = "timedOut"
    THEN [key |-> batch[i].key, text |-> E.text[batch[i].q], ans |-> "F", to |-> FALSE, pto |-> TRUE]
    ELSE IF Plumbing = "byIndex"
    THEN LET r == CHOOSE r \in {res[k] : k \in DOMAIN res} : r.idx = i
         IN  [key |-> r.key, text |-> E.text[r.q], ans |-> r.ans, to |-> r.to, pto |-> FALSE]
    ELSE \* as originally coded: a dict keyed by text, later entries overwrite earlier ones
         LET same == {k \in DOMAIN res : E.text[res[k].q] = E.text[batch[i].q]}
             last == CHOOSE k \in same : \A m \in same : res[m].idx <= res[k].idx
             r == res[last]
         IN  [key |-> r.key, text |-> E.text[batch[i].q], ans |-> r.ans, to |-> r.to, pto |-> FALSE]

Complete == IF prep = "timedOut" THEN TRUE
            ELSE /\ Len(res) = Len(batch) /\ workers = {}
                 /\ (multi => pc = "workers" \/ Len(batch) = 0)

CallReturn(E) ==
    /\ pc \in {"answer", "workers"} /\ Complete
    /\ table' = [i \in DOMAIN batch |-> RowFor(E, i)]
    /\ pc' = "idle" /\ ncalls' = ncalls + 1
    /\ UNCHANGED <<prep, batch, multi, res, workers>>

CallRaise ==
    /\ pc = "raise" /\ pc' = "idle" /\ ncalls' = ncalls + 1 /\ table' = <<>>
    /\ UNCHANGED <<prep, batch, multi, res, workers>>

-----------------------------------------------------------------------------
(* Properties (C13) *)

(* every returned row carries its own query's key, text and answer *)
RowsOwnKey(E) ==
    (pc = "idle" /\ ncalls > 0 /\ table # <<>>) =>
        /\ Len(table) = Len(batch)
        /\ \A i \in DOMAIN table :
              /\ table[i].key = batch[i].key
              /\ table[i].text = E.text[batch[i].q]
              /\ (~table[i].to /\ ~table[i].pto => table[i].ans = E.truth[batch[i].q])
              /\ (table[i].to \/ table[i].pto => table[i].ans = "F")

NoWorkersOutsideCall == pc \in {"idle", "prep", "raise"} => workers = {}

(* preprocessing happens at most once per manager and is never undone *)
PrepMonotone == [][prep = "done" => prep' = "done"]_mvars
=============================================================================
