------------------------------ MODULE MC_Revision ------------------------------
(***************************************************************************)
(* All add/remove sequences of length <= MaxSteps over three candidate     *)
(* conditionals (a literal one, a compound one, an unfalsifiable one) on 4 *)
(* worlds: the caches stay exact and an incrementally reached model equals *)
(* a fresh one of its current conditionals.                                *)
(***************************************************************************)
EXTENDS Revision

CONSTANT MaxSteps
VARIABLE steps

WS == 1..4
Cands == <<  <<0, 0, 1, 2>>,      \* (b|a)
             <<1, 2, 2, 1>>,      \* compound
             <<0, 1, 0, 1>> >>    \* unfalsifiable

Next == /\ steps < MaxSteps /\ steps' = steps + 1
        /\ \/ \E i \in 1..3 : Add(i, Cands[i])
           \/ \E i \in 1..3 : Remove(i)
Spec == RInit(WS) /\ steps = 0 /\ [][Next]_<<rvars, steps>>

Exact == CachesExact
(* fresh model of the current conditionals *)
FreshEqual ==
    /\ \A w \in WS : acc[w] = {i \in DOMAIN conds : Cands[i][w] = 1} /\ rej[w] = {i \in DOMAIN conds : Cands[i][w] = 2}
    /\ \A i \in DOMAIN conds : conds[i] = Cands[i]
=============================================================================
