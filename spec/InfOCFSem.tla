------------------------------- MODULE InfOCFSem -------------------------------
(***************************************************************************)
(* Semantic core (stratum S) of InfOCF.                                    *)
(*                                                                         *)
(* Worlds are 1..NW (world i <-> bitstring of i-1 over the signature, most *)
(* significant atom first -- the PreOCF bitstring convention).             *)
(* A conditional (B|A) is a function c : worlds -> 0..2                    *)
(*      0  not applicable (A false)                                        *)
(*      1  verified      (A and B)                                         *)
(*      2  falsified     (A and not B)                                     *)
(* which is exactly the information an answer may depend on (C12).         *)
(* A belief base is a function from integer keys to conditionals; a        *)
(* sequence is the special case keys = 1..n.                               *)
(* Every operator takes the set of worlds WS explicitly (an empty base     *)
(* carries no world information).                                          *)
(*                                                                         *)
(* Everything here is a constant-level definition transcribed from the     *)
(* property statements C01-C09, C16-C19 and the cited papers, never from   *)
(* the code.  MC_SemTheorems checks the definitions against the theorems   *)
(* the literature guarantees.                                              *)
(***************************************************************************)
EXTENDS Naturals, Integers, Sequences, FiniteSets, TLC

MinS(S) == CHOOSE x \in S : \A y \in S : x <= y
MaxS(S) == CHOOSE x \in S : \A y \in S : x >= y

Ver(c) == {w \in DOMAIN c : c[w] = 1}
Fal(c) == {w \in DOMAIN c : c[w] = 2}
App(c) == {w \in DOMAIN c : c[w] # 0}

(* (not B | A) *)
NegC(c) == [w \in DOMAIN c |-> IF c[w] = 1 THEN 2 ELSE IF c[w] = 2 THEN 1 ELSE 0]

(* base B extended by one more conditional under a fresh key *)
FreshKey(B) == IF DOMAIN B = {} THEN 1 ELSE MaxS(DOMAIN B) + 1
Ext(B, c)   == LET k == FreshKey(B) IN [x \in (DOMAIN B) \cup {k} |-> IF x = k THEN c ELSE B[x]]
Restrict(B, K) == [k \in K |-> B[k]]

-----------------------------------------------------------------------------
(* Tolerance, partitions, consistency (C06)                                *)

NoFal(B, K, WS) == {w \in WS : \A k \in K : B[k][w] # 2}
Tol(B, K, WS)   == LET ok == NoFal(B, K, WS) IN {k \in K : \E w \in ok : B[k][w] = 1}

RECURSIVE LayersR(_, _, _)
LayersR(B, K, WS) ==
    IF K = {} THEN <<>>
    ELSE LET T == Tol(B, K, WS)
         IN  IF T = {} THEN <<>> ELSE <<T>> \o LayersR(B, K \ T, WS)

(* fin: the finite layers in order; inf: the never-tolerated conditionals *)
Part(B, WS) ==
    LET L == LayersR(B, DOMAIN B, WS)
    IN  [fin |-> L, inf |-> (DOMAIN B) \ UNION {L[i] : i \in DOMAIN L}]

Strong(B, WS)   == Part(B, WS).inf = {}
FeasW(B, WS)    == NoFal(B, Part(B, WS).inf, WS)
Weak(B, WS)     == FeasW(B, WS) # {}
Feas(B, WS, weakly) == IF weakly THEN FeasW(B, WS) ELSE WS

(* what consistency()/consistency_indices() must return, as key sets:      *)
(* strict: FALSE or the finite layers; extended: FALSE or finite layers    *)
(* followed by the (possibly empty) infinity layer                         *)
PartitionResult(B, WS, weakly) ==
    LET P == Part(B, WS)
    IN  IF weakly
        THEN IF NoFal(B, P.inf, WS) = {} THEN <<FALSE, <<>>>> ELSE <<TRUE, Append(P.fin, P.inf)>>
        ELSE IF P.inf # {} THEN <<FALSE, <<>>>> ELSE <<TRUE, P.fin>>

ConsistentFor(B, WS, weakly) == IF weakly THEN Weak(B, WS) ELSE Strong(B, WS)

-----------------------------------------------------------------------------
(* Ranks and orders induced by the finite layers                           *)

FS(B, L, w) == {k \in L : B[k][w] = 2}

(* Z-rank (C02): 0 if w falsifies nothing in the finite layers, else       *)
(* 1 + largest 0-based layer index = largest 1-based layer index           *)
KZ(B, fin, w) ==
    LET bad == {i \in DOMAIN fin : FS(B, fin[i], w) # {}}
    IN  IF bad = {} THEN 0 ELSE MaxS(bad)

RECURSIVE WLess(_, _, _, _, _)
WLess(B, fin, i, w1, w2) ==
    IF i = 0 THEN FALSE
    ELSE LET a == FS(B, fin[i], w1)
             b == FS(B, fin[i], w2)
         IN  IF a = b THEN WLess(B, fin, i - 1, w1, w2)
             ELSE a \subseteq b

RECURSIVE LexLess(_, _, _, _, _)
LexLess(B, fin, i, w1, w2) ==
    IF i = 0 THEN FALSE
    ELSE LET a == Cardinality(FS(B, fin[i], w1))
             b == Cardinality(FS(B, fin[i], w2))
         IN  IF a = b THEN LexLess(B, fin, i - 1, w1, w2)
             ELSE a < b

(* the vacuity rules of C01/C07, stated once.  P is Part(B, WS): it is a   *)
(* parameter only so that one evaluation serves many queries.              *)
FeasP(B, P, WS, weakly) == IF weakly THEN NoFal(B, P.inf, WS) ELSE WS

DecideP(B, P, q, WS, weakly, better(_, _, _)) ==
    LET F == FeasP(B, P, WS, weakly)
        V == {w \in F : q[w] = 1}
        N == {w \in F : q[w] = 2}
    IN  IF N = {} THEN TRUE
        ELSE IF V = {} THEN FALSE
        ELSE better(V, N, F)

SysZP(B, P, q, WS, weakly) ==
    DecideP(B, P, q, WS, weakly,
            LAMBDA V, N, F : MinS({KZ(B, P.fin, w) : w \in V}) < MinS({KZ(B, P.fin, w) : w \in N}))

SysWP(B, P, q, WS, weakly) ==
    DecideP(B, P, q, WS, weakly,
            LAMBDA V, N, F : \A n \in N : \E v \in V : WLess(B, P.fin, Len(P.fin), v, n))

SysLexP(B, P, q, WS, weakly) ==
    DecideP(B, P, q, WS, weakly,
            LAMBDA V, N, F : \E v \in V : \A n \in N : LexLess(B, P.fin, Len(P.fin), v, n))

(* p-entailment.  Strict (C01): D + (not B|A) admits no tolerance partition.*)
(* Extended (C07): the same over the feasible worlds and the finite layers. *)
PEntP(B, P, q, WS, weakly) ==
    LET Bf == Restrict(B, (DOMAIN B) \ (IF weakly THEN P.inf ELSE {}))
    IN  DecideP(B, P, q, WS, weakly,
                LAMBDA V, N, F : ~Strong(Ext(Bf, NegC(q)), F))

SysZ(B, q, WS, weakly)   == SysZP(B, Part(B, WS), q, WS, weakly)
SysW(B, q, WS, weakly)   == SysWP(B, Part(B, WS), q, WS, weakly)
SysLex(B, q, WS, weakly) == SysLexP(B, Part(B, WS), q, WS, weakly)
PEnt(B, q, WS, weakly)   == PEntP(B, Part(B, WS), q, WS, weakly)

-----------------------------------------------------------------------------
(* c-representations and c-inference (C05, C17)                            *)

RECURSIVE SumOver(_, _)
SumOver(f, S) == IF S = {} THEN 0 ELSE LET x == CHOOSE x \in S : TRUE IN f[x] + SumOver(f, S \ {x})

Kappa(B, eta, w) == SumOver(eta, {k \in DOMAIN B : B[k][w] = 2})

(* kappa accepts (B|A) with both ranks possibly infinite: see Acc below; for *)
(* c-representations ranks of worlds are finite, so v # {} is required.      *)
IsCRep(B, eta, WS) ==
    \A k \in DOMAIN B :
        LET v == {Kappa(B, eta, w) : w \in {x \in WS : B[k][x] = 1}}
            f == {Kappa(B, eta, w) : w \in {x \in WS : B[k][x] = 2}}
        IN  \* IF, not a disjunction: inside an action TLC evaluates both disjuncts
            v # {} /\ (IF f = {} THEN TRUE ELSE MinS(v) < MinS(f))

CReps(B, WS, U) == {eta \in [DOMAIN B -> 0..U] : IsCRep(B, eta, WS)}

(* a c-representation within impact bound U that does NOT accept q, if any *)
CounterCReps(B, q, WS, U) ==
    LET V == {w \in WS : q[w] = 1}
        N == {w \in WS : q[w] = 2}
    IN  {eta \in CReps(B, WS, U) :
            ~(MinS({Kappa(B, eta, w) : w \in V}) < MinS({Kappa(B, eta, w) : w \in N}))}

(* skeptical c-inference from a precomputed set CR of c-representations *)
CInfFrom(CR, B, q, WS) ==
    DecideP(B, [fin |-> <<>>, inf |-> {}], q, WS, FALSE,
            LAMBDA V, N, F : \A eta \in CR :
                MinS({Kappa(B, eta, w) : w \in V}) < MinS({Kappa(B, eta, w) : w \in N}))

CInf(B, q, WS, U) ==
    DecideP(B, [fin |-> <<>>, inf |-> {}], q, WS, FALSE, LAMBDA V, N, F : CounterCReps(B, q, WS, U) = {})

(* componentwise order on impact vectors *)
VecLeq(a, b)  == \A k \in DOMAIN a : a[k] <= b[k]
VecLess(a, b) == VecLeq(a, b) /\ a # b
ParetoMin(S)  == {a \in S : ~\E b \in S : VecLess(b, a)}
(* eta is Pareto-minimal among ALL c-representations iff no c-representation *)
(* lies strictly below it -- a finite search                                  *)
SmallerCReps(B, eta, WS) ==
    {e \in [DOMAIN B -> 0..(IF DOMAIN B = {} THEN 0 ELSE MaxS({eta[k] : k \in DOMAIN B}))] :
        VecLess(e, eta) /\ IsCRep(B, e, WS)}

-----------------------------------------------------------------------------
(* Ranking functions (C16, C18).  INF is a rank value standing for infinity *)

RankOf(kap, S, INF) == IF S = {} THEN INF ELSE MinS({kap[w] : w \in S})
Acc(kap, c, INF) ==
    LET v == RankOf(kap, Ver(c), INF)
        f == RankOf(kap, Fal(c), INF)
    IN  (v = INF /\ f = INF) \/ v < f

(* System Z ranking object: KZ on feasible worlds, top rank (one above all  *)
(* finite ranks = number of finite layers + 1) on infeasible ones          *)
KZStar(B, WS, weakly, w) ==
    LET P == Part(B, WS)
    IN  IF weakly /\ w \notin NoFal(B, P.inf, WS) THEN Len(P.fin) + 1 ELSE KZ(B, P.fin, w)

(* facts (C06, C16): each fact phi (a set of worlds) becomes (Bottom | not phi) *)
FactCond(phi, WS) == [w \in WS |-> IF w \in phi THEN 0 ELSE 2]
RECURSIVE Augment(_, _, _)
Augment(B, facts, WS) ==
    IF facts = <<>> THEN B
    ELSE Augment(Ext(B, FactCond(Head(facts), WS)), Tail(facts), WS)

InfSize(B, WS) == Cardinality(Part(B, WS).inf)

(* the five diagnostics flags of C06 as one-line definitions *)
DiagFactsSat(facts, WS)   == \E w \in WS : \A i \in DOMAIN facts : w \in facts[i]
DiagBaseCons(B, WS)       == Strong(B, WS)
DiagBaseWeak(B, WS)       == Weak(B, WS)
DiagCombCons(B, facts, WS, extended) == ConsistentFor(Augment(B, facts, WS), WS, extended)
DiagInfGrew(B, facts, WS) == InfSize(Augment(B, facts, WS), WS) > InfSize(B, WS)

-----------------------------------------------------------------------------
(* Laws of ranking-function operations (C18).  A ranking kap is a sequence  *)
(* over the worlds 1..2^n; NONE (= -1) marks an undefined rank.            *)
NONE == 0 - 1
Defined(kap) == {w \in DOMAIN kap : kap[w] # NONE}
(* rank of a proposition S: least rank of its worlds, NONE if it has none  *)
FRank(kap, S) == LET D == S \cap Defined(kap) IN IF D = {} THEN NONE ELSE MinS({kap[w] : w \in D})
(* acceptance: rank(AB) defined and smaller than rank(A not B), or the latter undefined *)
Accepts(kap, c) ==
    LET v == FRank(kap, Ver(c))
        f == FRank(kap, Fal(c))
    IN  v # NONE /\ (f = NONE \/ v < f)

RECURSIVE Pow2S(_)
Pow2S(n) == IF n = 0 THEN 1 ELSE 2 * Pow2S(n - 1)
(* bit of atom position i (1 = most significant) in world w over n atoms *)
BitOf(w, i, n) == ((w - 1) \div Pow2S(n - i)) % 2
(* number of the world over the kept atoms (in order) that w projects to *)
RECURSIVE ProjNum(_, _, _, _)
ProjNum(w, keep, n, j) ==
    IF j > Len(keep) THEN 0
    ELSE BitOf(w, keep[j], n) * Pow2S(Len(keep) - j) + ProjNum(w, keep, n, j + 1)
Proj(w, keep, n) == ProjNum(w, keep, n, 1) + 1
(* marginalisation to the kept atoms: least rank of the extensions *)
Marg(kap, keep, n) ==
    [v \in 1..Pow2S(Len(keep)) |-> FRank(kap, {w \in DOMAIN kap : Proj(w, keep, n) = v})]
(* conditionalisation: exactly the worlds of S with their ranks *)
CondOn(kap, S) == {<<w, kap[w]>> : w \in S}
(* layered total preorder: worlds grouped by rank, ascending *)
RankValues(kap) == {kap[w] : w \in Defined(kap)}
RECURSIVE SortAsc(_)
SortAsc(S) == IF S = {} THEN <<>> ELSE LET m == MinS(S) IN <<m>> \o SortAsc(S \ {m})
Tpo(kap) == LET vs == SortAsc(RankValues(kap)) IN [i \in DOMAIN vs |-> {w \in Defined(kap) : kap[w] = vs[i]}]
SameOrder(k1, k2) ==
    /\ Defined(k1) = Defined(k2)
    /\ \A a, b \in Defined(k1) : (k1[a] < k1[b] <=> k2[a] < k2[b]) /\ (k1[a] = k1[b] <=> k2[a] = k2[b])

-----------------------------------------------------------------------------
(* Formula trees (C10, C15): <<"var", name>> | <<"top">> | <<"bot">> |      *)
(* <<"not", f>> | <<"and", l, r>> | <<"or", l, r>>, evaluated in world w of *)
(* the signature sig (a sequence of atom names, first atom most significant)*)

RECURSIVE Pow2(_)
Pow2(n) == IF n = 0 THEN 1 ELSE 2 * Pow2(n - 1)
AtomTrue(sig, a, w) ==
    LET i == CHOOSE k \in DOMAIN sig : sig[k] = a
    IN  ((w - 1) \div Pow2(Len(sig) - i)) % 2 = 1

RECURSIVE EvalTree(_, _, _)
EvalTree(f, sig, w) ==
    CASE f[1] = "var" -> AtomTrue(sig, f[2], w)
      [] f[1] = "top" -> TRUE
      [] f[1] = "bot" -> FALSE
      [] f[1] = "not" -> ~EvalTree(f[2], sig, w)
      [] f[1] = "and" -> EvalTree(f[2], sig, w) /\ EvalTree(f[3], sig, w)
      [] f[1] = "or"  -> EvalTree(f[2], sig, w) \/ EvalTree(f[3], sig, w)

(* the semantic conditional of (B|A) over sig *)
SemCond(B, A, sig) ==
    [w \in 1..Pow2(Len(sig)) |->
        IF ~EvalTree(A, sig, w) THEN 0 ELSE IF EvalTree(B, sig, w) THEN 1 ELSE 2]

(* C15: inclusion-minimal members of a family of sets *)
MinimalSets(F) == {a \in F : ~\E b \in F : b # a /\ b \subseteq a}

=============================================================================
