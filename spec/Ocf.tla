--------------------------------- MODULE Ocf ---------------------------------
(***************************************************************************)
(* Life cycle of ranking-function objects (PreOCF): lazy rank cache,       *)
(* persistence (C16, C20).                                                 *)
(*                                                                         *)
(* objs : object id -> [full, ranks, aux]                                  *)
(*    full   the ranking the object stands for (a total function on the    *)
(*           worlds; for System Z / c-representations it is defined by the *)
(*           semantic core, for custom objects it is given)                *)
(*    ranks  the cache: world -> rank or NONE (not computed yet)           *)
(*    aux    TRUE iff the object holds its solver handles (_optimizer/_csp)*)
(* disk : file name -> snapshot [full, ranks] written by a successful Save *)
(*                                                                         *)
(* The cache is only ever filled with the right value (CacheExact); a Save *)
(* writes exactly the current state, leaves the object unchanged, a failed *)
(* save leaves everything unchanged; Load creates a new object equal to    *)
(* the snapshot, whose later lazy computation yields the same ranks.       *)
(***************************************************************************)
EXTENDS Naturals, Integers, Sequences, FiniteSets, TLC

VARIABLES objs, disk
ovars == <<objs, disk>>

NoRank == 0 - 1
Worlds(o) == DOMAIN objs[o].full

OInit == objs = <<>> /\ disk = [f \in {} |-> 0]

(* a new object with an empty cache; o is the next free id *)
Construct(full, aux) ==
    /\ objs' = Append(objs, [full |-> full, ranks |-> [w \in DOMAIN full |-> NoRank], aux |-> aux])
    /\ UNCHANGED disk

(* a custom object is born with its ranks *)
ConstructFull(full) ==
    /\ objs' = Append(objs, [full |-> full, ranks |-> full, aux |-> FALSE])
    /\ UNCHANGED disk

Fill(o, S) == [objs EXCEPT ![o].ranks = [w \in Worlds(o) |-> IF w \in S THEN objs[o].full[w] ELSE objs[o].ranks[w]]]

(* rank_world(w, force): the result is the object's rank of w; the cache holds it afterwards *)
RankWorld(o, w, force, result) ==
    /\ o \in DOMAIN objs /\ w \in Worlds(o)
    /\ result = objs[o].full[w]
    /\ objs' = Fill(o, {w})
    /\ UNCHANGED disk

ComputeAll(o) == o \in DOMAIN objs /\ objs' = Fill(o, Worlds(o)) /\ UNCHANGED disk

(* formula_rank / conditional_acceptance / compute_conditionalization rank every world of S *)
Touch(o, S) == o \in DOMAIN objs /\ S \subseteq Worlds(o) /\ objs' = Fill(o, S) /\ UNCHANGED disk

Save(o, f) ==
    /\ o \in DOMAIN objs
    /\ disk' = [g \in (DOMAIN disk) \cup {f} |-> IF g = f THEN [full |-> objs[o].full, ranks |-> objs[o].ranks] ELSE disk[g]]
    /\ UNCHANGED objs                                    \* in particular aux: solver handles are restored

SaveFail(o, f) == o \in DOMAIN objs /\ UNCHANGED <<objs, disk>>

Load(f) ==
    /\ f \in DOMAIN disk
    /\ objs' = Append(objs, [full |-> disk[f].full, ranks |-> disk[f].ranks, aux |-> FALSE])
    /\ UNCHANGED disk

-----------------------------------------------------------------------------
CacheExact == \A o \in DOMAIN objs : \A w \in Worlds(o) : objs[o].ranks[w] \in {NoRank, objs[o].full[w]}
(* every snapshot on disk is a state some object has been in *)
DiskExact  == \A f \in DOMAIN disk : \A w \in DOMAIN disk[f].full : disk[f].ranks[w] \in {NoRank, disk[f].full[w]}
(* the cache never forgets and solver handles never disappear *)
Monotone == [][\A o \in DOMAIN objs : /\ objs'[o].full = objs[o].full
                                       /\ objs'[o].aux = objs[o].aux
                                       /\ \A w \in Worlds(o) : objs[o].ranks[w] # NoRank => objs'[o].ranks[w] = objs[o].ranks[w]]_ovars
=============================================================================
