---------------------------- MODULE Trace_SynSplit ----------------------------
(***************************************************************************)
(* Validates what synsplit/split.py computed against SynSplit.tla, and the  *)
(* answers of the real operators against the splitting postulates.          *)
(*                                                                         *)
(* Log (env TRACE_FILE): JSON array of records, field ev:                  *)
(*  split     na, base (sequence of conditional vectors over 2^na worlds), *)
(*            at (sequence: atoms (1..na) occurring in conditional k),      *)
(*            all, genuine, safe, gsafe, gen_safe, gen_gsafe :              *)
(*            sequences of <<s3, s1, s2, d1, d2>> (atom / key sequences)    *)
(*            as returned by calculate_conditional_syntax_splittings,       *)
(*            filter_genuine_splittings, filter_safe_... (plain and         *)
(*            generalized) and the genuine filter applied to those          *)
(*  post      na, base, at, s3, s1, s2, kind ("CRel"/"CInd"), sys,          *)
(*            full, other : sequences of "T"/"F" -- answers of operator     *)
(*            sys from the whole base to the queries A D |~ C, and          *)
(*            (CRel) from the sub-base of side s1 / (CInd) to A D E |~ C    *)
(* A mismatch prints {"reject": l, "what": ...} and validation continues.  *)
(***************************************************************************)
EXTENDS SynSplit, Json, IOUtils, SequencesExt

VARIABLES l, st
vars == <<l, st>>

Log == JsonDeserialize(IOEnv.TRACE_FILE)
N   == Len(Log)

SetOf(s)  == {s[i] : i \in DOMAIN s}
BaseOfE(e) == [k \in 1..Len(e.base) |-> e.base[k]]
AtOf(e)   == [k \in 1..Len(e.at) |-> SetOf(e.at[k])]
WSOf(e)   == 1..Pow2(e.na)

(* a reported 5-tuple as a splitting of SynSplit *)
Norm(t) == [s3 |-> SetOf(t[1]), sides |-> {[s |-> SetOf(t[2]), d |-> SetOf(t[4])], [s |-> SetOf(t[3]), d |-> SetOf(t[5])]}]
NormAll(s) == {Norm(s[i]) : i \in DOMAIN s}

(* the reported list is exactly the required set, each splitting once *)
ListIs(s, S) == NormAll(s) = S /\ Len(s) = Cardinality(S)

SplitBad(e) ==
    LET B   == BaseOfE(e)
        At  == AtOf(e)
        WS  == WSOf(e)
        All == Splittings(e.na, At, DOMAIN B)
        Sf  == {sp \in All : IsSafe(e.na, B, At, sp, WS, FALSE)}
        Gs  == {sp \in All : IsSafe(e.na, B, At, sp, WS, TRUE)}
    IN  IF ~LanguageOK(e.na, B, At) THEN <<"harness: reported languages do not cover the vectors">>
        ELSE SelectSeq(<<"all", "genuine", "safe", "gsafe", "gen_safe", "gen_gsafe">>,
               LAMBDA f :
                 CASE f = "all"       -> ~ListIs(e.all, All)
                   [] f = "genuine"   -> ~ListIs(e.genuine, {sp \in All : IsGenuine(sp)})
                   [] f = "safe"      -> ~ListIs(e.safe, Sf)
                   [] f = "gsafe"     -> ~ListIs(e.gsafe, Gs)
                   [] f = "gen_safe"  -> ~ListIs(e.gen_safe, {sp \in Sf : IsGenuine(sp)})
                   [] f = "gen_gsafe" -> ~ListIs(e.gen_gsafe, {sp \in Gs : IsGenuine(sp)}))

(* a postulate instance: the precondition (a safe splitting of the base) is re-established by the specification *)
PostBad(e) ==
    LET B  == BaseOfE(e)
        At == AtOf(e)
        WS == WSOf(e)
        sp == [s3 |-> SetOf(e.s3), sides |-> {Side(At, DOMAIN B, SetOf(e.s1), SetOf(e.s3)), Side(At, DOMAIN B, SetOf(e.s2), SetOf(e.s3))}]
    IN  IF ~(sp \in Splittings(e.na, At, DOMAIN B) /\ IsSafe(e.na, B, At, sp, WS, FALSE) /\ Strong(B, WS))
        THEN <<"harness: not a safe splitting of a consistent base">>
        ELSE IF Len(e.full) # Len(e.other) THEN <<"lengths">>
        ELSE IF \E i \in DOMAIN e.full : e.full[i] # e.other[i] THEN <<e.kind, e.sys>> ELSE <<>>

Rej(ok, what) == IF ok THEN TRUE ELSE PrintT(ToJson([reject |-> l, what |-> what]))

Check(e) ==
    CASE e.ev = "split" -> Rej(SplitBad(e) = <<>>, SplitBad(e))
      [] e.ev = "post"  -> Rej(PostBad(e) = <<>>, PostBad(e))
      [] OTHER -> Rej(FALSE, <<"unknown event kind">>)

Init == l = 0 /\ st = 0
Pick == st = 0 /\ l' \in 1..N /\ st' = 1
Eval == st = 1 /\ Check(Log[l]) /\ st' = 2 /\ UNCHANGED l
Next == Pick \/ Eval
Spec == Init /\ [][Next]_vars
=============================================================================
