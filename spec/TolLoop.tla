------------------------------- MODULE TolLoop -------------------------------
(***************************************************************************)
(* The layer loop of consistency() / consistency_indices() as a state      *)
(* machine: one solver per layer holding the material counterparts of the  *)
(* remaining conditionals; each conditional is tested under push/pop with  *)
(* its verification asserted; tolerated ones (R) form the new layer, the   *)
(* others (C) remain.  In extended mode a layer without tolerated          *)
(* conditionals ends the loop with C as the infinity layer, provided the   *)
(* material counterparts are jointly satisfiable.                          *)
(*                                                                         *)
(* Discipline = "pushpop" is the specification; Discipline = "nopop"       *)
(* models a forgotten pop (the verification asserted for one test stays    *)
(* asserted for the following tests of the same layer), which TLC shows to *)
(* produce wrong partitions.                                               *)
(***************************************************************************)
EXTENDS InfOCFSem

CONSTANTS Discipline        \* "pushpop" | "nopop"

VARIABLES base, ws, weakly,  \* the input (chosen in Init)
          rest,              \* keys not yet placed
          todo,              \* keys of the current layer still to be tested (a sequence: the code iterates in order)
          R, C,              \* tolerated / not tolerated in the current layer
          leaked,            \* worlds still admitted by leaked assertions (nopop only)
          layers, status     \* result so far; "run" | "done" | "inconsistent"

lvars == <<base, ws, weakly, rest, todo, R, C, leaked, layers, status>>

RECURSIVE SeqOfSet(_)
SeqOfSet(S) == IF S = {} THEN <<>> ELSE LET x == MinS(S) IN <<x>> \o SeqOfSet(S \ {x})

LInit(B, W, wk) ==
    /\ base = B /\ ws = W /\ weakly = wk
    /\ rest = DOMAIN B /\ todo = SeqOfSet(DOMAIN B) /\ R = {} /\ C = {} /\ leaked = W
    /\ layers = <<>> /\ status = "run"

Knowledge == NoFal(base, rest, ws)          \* worlds satisfying all material counterparts of the remaining conditionals

(* test one conditional of the current layer *)
Test ==
    /\ status = "run" /\ todo # <<>>
    /\ LET k == Head(todo)
           scope == IF Discipline = "pushpop" THEN Knowledge ELSE Knowledge \cap leaked
           sat == \E w \in scope : base[k][w] = 1
       IN  /\ IF sat THEN R' = R \cup {k} /\ C' = C ELSE C' = C \cup {k} /\ R' = R
           /\ leaked' = IF Discipline = "pushpop" THEN ws ELSE {w \in scope : base[k][w] = 1}
    /\ todo' = Tail(todo)
    /\ UNCHANGED <<base, ws, weakly, rest, layers, status>>

(* all conditionals of the layer tested *)
CloseLayer ==
    /\ status = "run" /\ todo = <<>> /\ rest # {} /\ R # {}
    /\ layers' = Append(layers, R) /\ rest' = C /\ todo' = SeqOfSet(C)
    /\ R' = {} /\ C' = {} /\ leaked' = ws
    /\ UNCHANGED <<base, ws, weakly, status>>

Stuck ==
    /\ status = "run" /\ todo = <<>> /\ rest # {} /\ R = {}
    /\ IF weakly /\ Knowledge # {}
       THEN layers' = Append(layers, C) /\ status' = "done"
       ELSE layers' = layers /\ status' = "inconsistent"
    /\ UNCHANGED <<base, ws, weakly, rest, todo, R, C, leaked>>

Done ==
    /\ status = "run" /\ rest = {} /\ todo = <<>>
    /\ layers' = IF weakly THEN Append(layers, {}) ELSE layers
    /\ status' = "done"
    /\ UNCHANGED <<base, ws, weakly, rest, todo, R, C, leaked>>

LNext == Test \/ CloseLayer \/ Stuck \/ Done

(* the loop computes exactly the partition the definition prescribes *)
LoopRefinesPart ==
    status # "run" =>
        LET r == PartitionResult(base, ws, weakly)
        IN  IF status = "inconsistent" THEN r[1] = FALSE
            ELSE r[1] = TRUE /\ Len(layers) = Len(r[2]) /\ \A i \in DOMAIN layers : layers[i] = r[2][i]
=============================================================================
