----------------------------- MODULE MC_SynSplit -----------------------------
(***************************************************************************)
(* Model-checks the splitting postulates CRel / CInd for the operators of  *)
(* InfOCFSem on every (generalized) safe conditional syntax splitting of    *)
(* every strongly consistent base of the universe (or of BASES_FILE), with  *)
(* the language of a conditional = the atoms its vector depends on.         *)
(* Thms names the (postulate, operator) pairs required to hold, e.g.        *)
(* "CRel-z"; Probe names pairs whose failures are only counted (System Z is *)
(* known to violate CInd) -- a witness that the postulates are not vacuous. *)
(***************************************************************************)
EXTENDS SynSplit, Universe, Json, IOUtils, SequencesExt

CONSTANTS MaxB, FromFile, Thms, Probe, CU, Generalized

VARIABLES stage, base, bad, probed, nsafe

vars == <<stage, base, bad, probed, nsafe>>

RECURSIVE Log2(_)
Log2(n) == IF n <= 1 THEN 0 ELSE 1 + Log2(n \div 2)
NA == Log2(NW)

FileBases == IF FromFile THEN JsonDeserialize(IOEnv.BASES_FILE) ELSE <<>>
BaseIdx == IF FromFile THEN {FileBases[i] : i \in DOMAIN FileBases} ELSE BasesUpTo(MaxB)

AnsP(o, B, P, CR, q) ==
    CASE o = "p" -> PEntP(B, P, q, WS, FALSE)
      [] o = "z" -> SysZP(B, P, q, WS, FALSE)
      [] o = "w" -> SysWP(B, P, q, WS, FALSE)
      [] o = "l" -> SysLexP(B, P, q, WS, FALSE)
      [] o = "c" -> CInfFrom(CR, B, q, WS)

Post(t) == SubSeq(t, 1, 4)
OpOf(t) == SubSeq(t, 6, 6)

SafeSplits(B) ==
    LET At == [k \in DOMAIN B |-> Support(NA, B[k])]
    IN  {sp \in Splittings(NA, At, DOMAIN B) : IsSafe(NA, B, At, sp, WS, Generalized)}

(* only splittings on which a postulate says something: CRel needs a proper non-empty sub-base, CInd a *)
(* non-empty other side of the signature                                                               *)
FailingOn(B, names) ==
    IF ~Strong(B, WS) \/ names = {} THEN {}
    ELSE LET SS == SafeSplits(B)
             P  == Part(B, WS)
             CR == IF \E t \in names : OpOf(t) = "c" THEN CReps(B, WS, CU) ELSE {}
         IN  {t \in names :
                \E sp \in SS : \E x \in sp.sides :
                   IF Post(t) = "CRel"
                   THEN /\ x.d # {} /\ x.d # DOMAIN B
                        /\ LET Bs  == Restrict(B, x.d)
                                Ps  == Part(Bs, WS)
                                CRs == IF OpOf(t) = "c" THEN CReps(Bs, WS, CU) ELSE {}
                            IN  ~CRelSide(NA, sp, x, WS, LAMBDA q : AnsP(OpOf(t), B, P, CR, q), LAMBDA q : AnsP(OpOf(t), Bs, Ps, CRs, q))
                   ELSE \E y \in sp.sides :
                           /\ y # x /\ y.s # {}
                           /\ ~CIndSide(NA, sp, x, y, WS, LAMBDA q : AnsP(OpOf(t), B, P, CR, q))}

Informative(B) == IF ~Strong(B, WS) THEN 0
                  ELSE Cardinality({sp \in SafeSplits(B) : \E x \in sp.sides : x.d # {} /\ x.d # DOMAIN B})

Init == stage = 0 /\ base = <<>> /\ bad = {} /\ probed = {} /\ nsafe = 0
Pick == stage = 0 /\ base' \in BaseIdx /\ stage' = 1 /\ UNCHANGED <<bad, probed, nsafe>>
Eval == /\ stage = 1 /\ stage' = 2 /\ UNCHANGED base
        /\ LET B == BaseOf(base)
           IN  /\ bad' = FailingOn(B, Thms)
               /\ probed' = FailingOn(B, Probe)
               /\ nsafe' = Informative(B)
Next == Pick \/ Eval
Spec == Init /\ [][Next]_vars

PostulatesHold == bad = {}
(* reported (not required): printed once per base on which a probed pair fails / a genuine safe splitting exists *)
Report == (stage = 2 /\ (probed # {} \/ nsafe > 0)) => PrintT(ToJson(<<"synsplit", base, nsafe, SetToSeq(probed)>>))
=============================================================================
