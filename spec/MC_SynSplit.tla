----------------------------- MODULE MC_SynSplit -----------------------------
(***************************************************************************)
(* Model-checks the splitting postulates CRel / CInd for the operators of  *)
(* InfOCFSem on every (generalized) safe conditional syntax splitting of    *)
(* every strongly consistent base of the universe (or of BASES_FILE), with  *)
(* the language of a conditional = the atoms its vector depends on.         *)
(* Thms names the (postulate, operator) pairs required to hold, e.g.        *)
(* "CRel-z"; Probe names pairs whose failures are only counted (System Z is *)
(* known to violate CInd) -- a witness that the postulates are not vacuous. *)
(***************************************************************************)
EXTENDS SynSplit, Universe, Json, IOUtils

CONSTANTS MaxB, FromFile, Thms, Probe, CU, Generalized

VARIABLES stage, base, bad, probed, nsafe

vars == <<stage, base, bad, probed, nsafe>>

RECURSIVE Log2(_)
Log2(n) == IF n <= 1 THEN 0 ELSE 1 + Log2(n \div 2)
NA == Log2(NW)

FileBases == IF FromFile THEN JsonDeserialize(IOEnv.BASES_FILE) ELSE <<>>
BaseIdx == IF FromFile THEN {FileBases[i] : i \in DOMAIN FileBases} ELSE BasesUpTo(MaxB)

Ans(o, B, q) ==
    CASE o = "p" -> PEnt(B, q, WS, FALSE)
      [] o = "z" -> SysZ(B, q, WS, FALSE)
      [] o = "w" -> SysW(B, q, WS, FALSE)
      [] o = "l" -> SysLex(B, q, WS, FALSE)
      [] o = "c" -> CInf(B, q, WS, CU)

Post(t) == SubSeq(t, 1, 4)
OpOf(t) == SubSeq(t, 6, 6)

SafeSplits(B) ==
    LET At == [k \in DOMAIN B |-> Support(NA, B[k])]
    IN  {sp \in Splittings(NA, At, DOMAIN B) : IsSafe(NA, B, At, sp, WS, Generalized)}

FailingOn(B, names) ==
    IF ~Strong(B, WS) THEN {}
    ELSE LET SS == SafeSplits(B)
         IN  {t \in names :
                \E sp \in SS :
                   IF Post(t) = "CRel" THEN ~CRelHolds(NA, B, sp, WS, LAMBDA X, q : Ans(OpOf(t), X, q))
                   ELSE ~CIndHolds(NA, B, sp, WS, LAMBDA X, q : Ans(OpOf(t), X, q))}

Init == stage = 0 /\ base = <<>> /\ bad = {} /\ probed = {} /\ nsafe = 0
Pick == stage = 0 /\ base' \in BaseIdx /\ stage' = 1 /\ UNCHANGED <<bad, probed, nsafe>>
Eval == /\ stage = 1 /\ stage' = 2 /\ UNCHANGED base
        /\ LET B == BaseOf(base)
           IN  /\ bad' = FailingOn(B, Thms)
               /\ probed' = FailingOn(B, Probe)
               /\ nsafe' = IF Strong(B, WS) THEN Cardinality({sp \in SafeSplits(B) : IsGenuine(sp)}) ELSE 0
Next == Pick \/ Eval
Spec == Init /\ [][Next]_vars

PostulatesHold == bad = {}
(* reported (not required): printed once per base on which a probed pair fails / a genuine safe splitting exists *)
Report == (stage = 2 /\ (probed # {} \/ nsafe > 0)) => PrintT(<<"synsplit", base, nsafe, probed>>)
=============================================================================
