------------------------------ MODULE InfOCFAlgo ------------------------------
(***************************************************************************)
(* Implementation-shaped algorithms: the layer recursions of System Z,     *)
(* System W and lexicographic inference AS THE CODE STRUCTURES THEM (sets  *)
(* of worlds stand for the hard constraints accumulated so far, minimal    *)
(* correction subsets for the MaxSAT enumeration), next to named WRONG      *)
(* VARIANTS.  MC_AlgoRefines checks each algorithm against its definition  *)
(* in InfOCFSem and searches for inputs on which a variant differs from    *)
(* the definition (distinguishing inputs, replayed into the real code).    *)
(***************************************************************************)
EXTENDS InfOCFSem

(* minimal correction subsets of layer L over the worlds H (McsEnum's result) *)
Mcs(B, L, H) == MinimalSets({FS(B, L, w) : w \in H})
MinCard(S)   == MinS({Cardinality(x) : x \in S})
MinCardSets(S) == {x \in S : Cardinality(x) = MinCard(S)}
Fix(B, L, H, xi) == {w \in H : FS(B, L, w) = xi}

-----------------------------------------------------------------------------
(* System Z as coded (system_z.py:_rec_inference): assert non-falsification *)
(* of the layers from the top, test reachability of A&B and A&!B           *)
RECURSIVE ZRec(_, _, _, _, _)
ZRec(B, fin, i, HV, HF) ==
    LET hv == {w \in HV : FS(B, fin[i], w) = {}}
        hf == {w \in HF : FS(B, fin[i], w) = {}}
    IN  IF hv = {} THEN FALSE
        ELSE IF hf # {} THEN (IF i = 1 THEN FALSE ELSE ZRec(B, fin, i - 1, hv, hf))
        ELSE TRUE

-----------------------------------------------------------------------------
(* System W as coded (system_w.py:_rec_inference)                          *)
RECURSIVE WRec(_, _, _, _, _)
WRec(B, fin, i, HV, HF) ==
    LET xv == Mcs(B, fin[i], HV)
        xf == Mcs(B, fin[i], HF)
    IN  IF ~(\A b \in xf : \E a \in xv : a \subseteq b) THEN FALSE
        ELSE \A xi \in xv \cap xf :
                IF i = 1 THEN FALSE
                ELSE WRec(B, fin, i - 1, Fix(B, fin[i], HV, xi), Fix(B, fin[i], HF, xi))

(* wrong variant: ties are not followed into the lower layers *)
RECURSIVE WRecNoTie(_, _, _, _, _)
WRecNoTie(B, fin, i, HV, HF) ==
    LET xv == Mcs(B, fin[i], HV)
        xf == Mcs(B, fin[i], HF)
    IN  \A b \in xf : \E a \in xv : a \subseteq b

(* wrong variant: only the minimum-CARDINALITY correction sets of a layer   *)
(* are considered (inclusion-minimal sets of larger size are dropped)       *)
RECURSIVE WRecMinCard(_, _, _, _, _)
WRecMinCard(B, fin, i, HV, HF) ==
    LET xv0 == Mcs(B, fin[i], HV)
        xf0 == Mcs(B, fin[i], HF)
        xv == IF xv0 = {} THEN {} ELSE MinCardSets(xv0)
        xf == IF xf0 = {} THEN {} ELSE MinCardSets(xf0)
    IN  IF ~(\A b \in xf : \E a \in xv : a \subseteq b) THEN FALSE
        ELSE \A xi \in xv \cap xf :
                IF i = 1 THEN FALSE
                ELSE WRecMinCard(B, fin, i - 1, Fix(B, fin[i], HV, xi), Fix(B, fin[i], HF, xi))

(* wrong variant: when a layer has several tied falsification sets it is   *)
(* enough that SOME tie succeeds below (models "only the first tie is      *)
(* followed correctly"); differs from the definition exactly on inputs     *)
(* with >= 2 ties of mixed outcome in one layer                            *)
RECURSIVE WRecAnyTie(_, _, _, _, _)
WRecAnyTie(B, fin, i, HV, HF) ==
    LET xv == Mcs(B, fin[i], HV)
        xf == Mcs(B, fin[i], HF)
    IN  IF ~(\A b \in xf : \E a \in xv : a \subseteq b) THEN FALSE
        ELSE IF xv \cap xf = {} THEN TRUE
        ELSE IF i = 1 THEN FALSE
        ELSE \E xi \in xv \cap xf : WRecAnyTie(B, fin, i - 1, Fix(B, fin[i], HV, xi), Fix(B, fin[i], HF, xi))

-----------------------------------------------------------------------------
(* lexicographic inference: the recursion the definition requires -- there *)
(* is a best verifying continuation that beats every falsifying one        *)
RECURSIVE LexRec(_, _, _, _, _)
LexRec(B, fin, i, HV, HF) ==
    LET xv == Mcs(B, fin[i], HV)
        xf == Mcs(B, fin[i], HF)
    IN  IF xv = {} THEN FALSE
        ELSE IF xf = {} THEN TRUE
        ELSE IF MinCard(xv) < MinCard(xf) THEN TRUE
        ELSE IF MinCard(xf) < MinCard(xv) THEN FALSE
        ELSE IF i = 1 THEN FALSE
        ELSE \E a \in MinCardSets(xv) : \A b \in MinCardSets(xf) :
                LexRec(B, fin, i - 1, Fix(B, fin[i], HV, a), Fix(B, fin[i], HF, b))

(* wrong variant, as originally coded (lex_inf.py / lex_inf_z3.py): the    *)
(* comparison is demanded for ALL pairs of minimum-cardinality sets        *)
RECURSIVE LexRecAllPairs(_, _, _, _, _)
LexRecAllPairs(B, fin, i, HV, HF) ==
    LET xv == Mcs(B, fin[i], HV)
        xf == Mcs(B, fin[i], HF)
    IN  IF xv = {} THEN FALSE
        ELSE IF xf = {} THEN TRUE
        ELSE IF MinCard(xv) < MinCard(xf) THEN TRUE
        ELSE IF MinCard(xf) < MinCard(xv) THEN FALSE
        ELSE IF i = 1 THEN FALSE
        ELSE \A a \in MinCardSets(xv) : \A b \in MinCardSets(xf) :
                LexRecAllPairs(B, fin, i - 1, Fix(B, fin[i], HV, a), Fix(B, fin[i], HF, b))

(* wrong variant: after a tie the verifying continuation must also beat the *)
(* continuations of falsifying sets that are NOT of minimum cardinality     *)
RECURSIVE LexRecAllMcsF(_, _, _, _, _)
LexRecAllMcsF(B, fin, i, HV, HF) ==
    LET xv == Mcs(B, fin[i], HV)
        xf == Mcs(B, fin[i], HF)
    IN  IF xv = {} THEN FALSE
        ELSE IF xf = {} THEN TRUE
        ELSE IF MinCard(xv) < MinCard(xf) THEN TRUE
        ELSE IF MinCard(xf) < MinCard(xv) THEN FALSE
        ELSE IF i = 1 THEN FALSE
        ELSE \E a \in MinCardSets(xv) : \A b \in xf :
                LexRecAllMcsF(B, fin, i - 1, Fix(B, fin[i], HV, a), Fix(B, fin[i], HF, b))

(* wrong variant: non-strict comparison of the cardinalities *)
RECURSIVE LexRecLeq(_, _, _, _, _)
LexRecLeq(B, fin, i, HV, HF) ==
    LET xv == Mcs(B, fin[i], HV)
        xf == Mcs(B, fin[i], HF)
    IN  IF xv = {} THEN FALSE ELSE IF xf = {} THEN TRUE ELSE MinCard(xv) <= MinCard(xf)

-----------------------------------------------------------------------------
(* the operators' top level, shared: vacuity rules, feasible worlds, start *)
(* at the highest finite layer                                             *)
AlgoDecide(B, q, WS, weakly, rec(_, _, _, _, _)) ==
    LET P == Part(B, WS)
    IN  DecideP(B, P, q, WS, weakly,
                LAMBDA V, N, F : IF Len(P.fin) = 0 THEN FALSE ELSE rec(B, P.fin, Len(P.fin), V, N))

AlgoZ(B, q, WS, weakly)           == AlgoDecide(B, q, WS, weakly, ZRec)
AlgoW(B, q, WS, weakly)           == AlgoDecide(B, q, WS, weakly, WRec)
AlgoWNoTie(B, q, WS, weakly)      == AlgoDecide(B, q, WS, weakly, WRecNoTie)
AlgoWAnyTie(B, q, WS, weakly)     == AlgoDecide(B, q, WS, weakly, WRecAnyTie)
AlgoWMinCard(B, q, WS, weakly)    == AlgoDecide(B, q, WS, weakly, WRecMinCard)
AlgoLex(B, q, WS, weakly)         == AlgoDecide(B, q, WS, weakly, LexRec)
AlgoLexAllPairs(B, q, WS, weakly) == AlgoDecide(B, q, WS, weakly, LexRecAllPairs)
AlgoLexLeq(B, q, WS, weakly)      == AlgoDecide(B, q, WS, weakly, LexRecLeq)
AlgoLexAllMcsF(B, q, WS, weakly)  == AlgoDecide(B, q, WS, weakly, LexRecAllMcsF)

-----------------------------------------------------------------------------
(* c-inference as coded (c_inference.py): instead of all worlds only the    *)
(* MINIMAL correction sets enter the constraint system.  For conditional i: *)
(*   vMin_i / fMin_i = minimal sets of OTHER conditionals falsified by the   *)
(*   worlds verifying / falsifying i;  eta_i > min(vSums) - min(fSums),      *)
(*   no constraint when fMin_i is empty (nothing falsifies i).               *)
(* Query: not entailed iff base constraints + min(vSums_q) >= min(fSums_q)   *)
(* are satisfiable, with the short cuts for empty sides.  Impacts range      *)
(* over 0..U.                                                                *)
SumSet(eta, S) == SumOver(eta, S)
MinSum(eta, F) == MinS({SumSet(eta, S) : S \in F})
CBaseOK(B, eta, WS) ==
    \A i \in DOMAIN B :
        LET others == (DOMAIN B) \ {i}
            vM == Mcs(B, others, {w \in WS : B[i][w] = 1})
            fM == Mcs(B, others, {w \in WS : B[i][w] = 2})
        IN  IF fM = {} THEN TRUE
            ELSE IF vM = {} THEN FALSE
            ELSE eta[i] > MinSum(eta, vM) - MinSum(eta, fM)
AlgoC(B, q, WS, U) ==
    LET V == {w \in WS : q[w] = 1}
        N == {w \in WS : q[w] = 2}
        vQ == Mcs(B, DOMAIN B, V)
        fQ == Mcs(B, DOMAIN B, N)
    IN  IF N = {} THEN TRUE                                   \* general_inference short cut
        ELSE IF \A i \in DOMAIN B : \A w \in WS : B[i][w] # 2 THEN FALSE   \* no conditional can be falsified
        ELSE IF vQ = {} THEN FALSE
        ELSE ~\E eta \in [DOMAIN B -> 0..U] : CBaseOK(B, eta, WS) /\ MinSum(eta, vQ) >= MinSum(eta, fQ)

(* extended p-entailment as coded (p_entailment.py): partition of the base  *)
(* plus the negated query; entailed iff no partition exists or the          *)
(* antecedent is unsatisfiable together with the last (infinity) layer      *)
AlgoPInf(B, q, WS) ==
    IF Fal(q) = {} \/ App(q) = {} THEN TRUE
    ELSE LET X == Ext(B, NegC(q))
             P == Part(X, WS)
         IN  IF NoFal(X, P.inf, WS) = {} THEN TRUE
             ELSE App(q) \cap NoFal(X, P.inf, WS) = {}
=============================================================================
