----------------------------- MODULE Trace_Budget -----------------------------
(***************************************************************************)
(* Trace validation for C14: executions under budgets, with injected clock *)
(* expiries and solver give-ups, validated against Budget.tla.             *)
(* Events: call (batch, multi, budgets in ms), dl (ms handed to            *)
(* Deadline.from_duration), prep (outcome, ptime = accumulated             *)
(* preprocessing time in ms), answer (q, result, to), return (rows,        *)
(* children), raise.                                                       *)
(* Deliberate, named deviation from the ideal design: StickyPto -- after a *)
(* preprocessing time-out the code keeps reporting the preprocessing flag  *)
(* (answers "F") in later calls although it preprocessed again; such rows  *)
(* are flagged, hence admissible under C14, and are accepted here.         *)
(***************************************************************************)
EXTENDS Budget, Json, IOUtils

VARIABLES t, l, everPto
tvars == <<t, l, everPto, mvars, bvars>>

Log == JsonDeserialize(IOEnv.TRACE_FILE)
NT  == Len(Log)
E   == Log[t].env
Ev  == Log[t].events
Cur == Ev[l]

IsEvent(name) == t > 0 /\ l <= Len(Ev) /\ Cur.ev = name /\ l' = l + 1 /\ t' = t
BatchOf(e) == [i \in DOMAIN e.batch |-> [key |-> e.batch[i][1], q |-> e.batch[i][2]]]

TCall == IsEvent("call") /\ BCallStart(BatchOf(Cur), Cur.multi, Cur.budgets) /\ UNCHANGED everPto

(* the duration given to Deadline.from_duration must be the documented budget *)
TDeadline ==
    /\ IsEvent("dl")
    /\ \/ pc = "prep" /\ Cur.ms = PrepBudget(budgets)
       \/ pc \in {"answer", "workers"} /\ qBudget # 0 /\ Cur.ms = qBudget
    /\ UNCHANGED <<everPto, mvars, bvars>>

TPrep ==
    /\ IsEvent("prep")
    /\ CASE Cur.outcome = "skip"    -> BPrepSkip /\ UNCHANGED everPto
         [] Cur.outcome = "refuse"  -> BPrepRefuse(E) /\ UNCHANGED everPto
         [] Cur.outcome = "timeout" -> BPrepTimeout(E) /\ everPto' = TRUE
         [] Cur.outcome = "run"     ->
                /\ \/ BPrepRun(E, Cur.ptime - prepTime)
                   \/ BPrepRetry(E, Cur.ptime - prepTime)
                /\ UNCHANGED everPto
         [] OTHER -> FALSE

TAnswer ==
    /\ IsEvent("answer") /\ UNCHANGED everPto
    /\ \/ /\ ~multi
          /\ \E i \in DOMAIN batch :
                /\ BAnswer(E, i, Cur.to)
                /\ batch[i].q = Cur.q
                /\ res'[Len(res')].ans = Cur.result
       \/ /\ multi /\ prep = "done"
          /\ pc \in {"answer", "workers"} /\ (pc = "answer" => res = <<>> /\ workers = {})
          /\ (Cur.to => qBudget # 0)
          /\ LET ws == IF pc = "answer" THEN DOMAIN batch ELSE workers
             IN  \E i \in ws :
                    /\ batch[i].q = Cur.q
                    /\ Row(E, i, Cur.to).ans = Cur.result
                    /\ res' = Append(res, Row(E, i, Cur.to))
                    /\ workers' = ws \ {i}
                    /\ pc' = "workers"
                    /\ UNCHANGED <<prep, batch, multi, table, ncalls, bvars>>

RowMatches(r, x) == r[1] = x.key /\ r[2] = x.text /\ r[3] = x.ans /\ r[4] = x.to /\ r[5] = x.pto
(* StickyPto: flagged row with answer "F" and the right key/text after an earlier preprocessing time-out *)
RowSticky(r, x) == everPto /\ r[1] = x.key /\ r[2] = x.text /\ r[3] = "F" /\ r[5] = TRUE

(* workers that never reported are lost (terminated by the join): WorkerLost is not observable from outside, so the   *)
(* return event is matched by (WorkerLost for every remaining worker) \cdot CallReturn, written out explicitly            *)
LostTable == [i \in DOMAIN batch |->
                IF i \in workers THEN [key |-> batch[i].key, text |-> E.text[batch[i].q], ans |-> "F", to |-> TRUE, pto |-> FALSE]
                ELSE LET r == CHOOSE r \in {res[k] : k \in DOMAIN res} : r.idx = i
                     IN  [key |-> r.key, text |-> E.text[r.q], ans |-> r.ans, to |-> r.to, pto |-> FALSE]]
TReturn ==
    /\ IsEvent("return") /\ UNCHANGED everPto
    /\ \/ BCallReturn(E)
       \/ /\ pc = "workers" /\ workers # {} /\ qBudget # 0 /\ prep = "done"
          /\ table' = LostTable
          /\ workers' = {} /\ pc' = "idle" /\ ncalls' = ncalls + 1
          /\ UNCHANGED <<prep, batch, multi, res, bvars>>
       \/ \* StickyPto: the code answers nothing once the flag is set
          /\ everPto /\ pc = "answer" /\ res = <<>> /\ prep = "done"
          /\ table' = [i \in DOMAIN batch |-> [key |-> batch[i].key, text |-> E.text[batch[i].q], ans |-> "F", to |-> FALSE, pto |-> TRUE]]
          /\ pc' = "idle" /\ ncalls' = ncalls + 1
          /\ UNCHANGED <<prep, batch, multi, res, workers, bvars>>
    /\ Len(Cur.rows) = Len(table')
    /\ \A i \in 1..Len(Cur.rows) : RowMatches(Cur.rows[i], table'[i]) \/ RowSticky(Cur.rows[i], table'[i])
    /\ Cur.children = 0

TRaise == IsEvent("raise") /\ BCallRaise /\ UNCHANGED everPto

TInstance == IsEvent("instance") /\ pc = "prep" /\ Cur.cls = ClassFor(Cur.system, Cur.backend) /\ UNCHANGED <<everPto, mvars, bvars>>

TMatch == TCall \/ TInstance \/ TDeadline \/ TPrep \/ TAnswer \/ TReturn \/ TRaise

Reject ==
    /\ t > 0 /\ l <= Len(Ev) /\ ~ENABLED TMatch
    /\ PrintT(ToJson([reject |-> t, at |-> l, event |-> Cur,
                      state |-> [pc |-> pc, prep |-> prep, multi |-> multi, nres |-> Len(res), budgets |-> budgets,
                                 prepTime |-> prepTime, qBudget |-> qBudget, ncalls |-> ncalls]]))
    /\ l' = Len(Ev) + 2 /\ t' = t /\ UNCHANGED <<everPto, mvars, bvars>>

Accept == /\ t > 0 /\ l = Len(Ev) + 1 /\ pc = "idle" /\ workers = {}
          /\ PrintT(ToJson([accept |-> t]))
          /\ l' = Len(Ev) + 3 /\ t' = t /\ UNCHANGED <<everPto, mvars, bvars>>
Truncated ==
    /\ t > 0 /\ l = Len(Ev) + 1 /\ ~(pc = "idle" /\ workers = {})
    /\ PrintT(ToJson([reject |-> t, at |-> l, event |-> "end of trace inside a call", state |-> [pc |-> pc]]))
    /\ l' = Len(Ev) + 2 /\ t' = t /\ UNCHANGED <<everPto, mvars, bvars>>

PickTrace == t = 0 /\ t' \in 1..NT /\ l' = 1 /\ UNCHANGED <<everPto, mvars, bvars>>

TInit == t = 0 /\ l = 0 /\ everPto = FALSE /\ BInit
TNext == PickTrace \/ TMatch \/ Reject \/ Accept \/ Truncated
TraceSpec == TInit /\ [][TNext]_tvars

(* C14's invariants, evaluated in every state of every trace; a row accepted by StickyPto is flagged *)
TraceSafe    == (t > 0 /\ pc = "idle" /\ table # <<>>) =>
                    \A i \in DOMAIN table : \/ (table[i].to \/ table[i].pto) /\ table[i].ans = "F"
                                            \/ ~table[i].to /\ ~table[i].pto /\ table[i].ans = E.truth[batch[i].q]
TraceNoRaise == t > 0 => NoFaultRaise(E)
=============================================================================
