------------------------------ MODULE MC_McsEnum ------------------------------
(* every family of subsets of {1,2,3} (256 families), every enumeration order *)
EXTENDS McsEnum
Keys3 == {1, 2, 3}
Next == (\E S \in SUBSET Keys3 : Model(S)) \/ Finish
Init == \E F \in SUBSET (SUBSET Keys3) : EInit(F)
Spec == Init /\ [][Next]_evars
(* the enumeration terminates for every family and every order of models *)
FairSpec == Spec /\ WF_evars(Next)
Terminates == <>(phase = "done")
=============================================================================
