------------------------------- MODULE Revision -------------------------------
(***************************************************************************)
(* c-revision (C19): the incremental compilation model and the meaning of  *)
(* revision parameters.                                                    *)
(*                                                                         *)
(* conds : index -> semantic conditional   (the current revision conditionals) *)
(* acc, rej : world -> set of indices      (the per-world caches of        *)
(*                                          CRevisionModel)                *)
(* The prior ranking kap is a parameter of the operators.                  *)
(***************************************************************************)
EXTENDS InfOCFSem, RevisionCore

(* compilation of a list of conditionals against a prior: per index the bag *)
(* of triples <<rank, verified others, falsified others>>, one per world    *)
(* verifying (v) resp. falsifying (f) the conditional.  As a bag: a         *)
(* function from the triple to its multiplicity.                            *)
Triple(kap, C, i, w) == <<kap[w], {j \in (DOMAIN C) \ {i} : C[j][w] = 1}, {j \in (DOMAIN C) \ {i} : C[j][w] = 2}>>
BagOf(kap, C, i, val) ==
    LET ws == {w \in DOMAIN kap : C[i][w] = val}
        ts == {Triple(kap, C, i, w) : w \in ws}
    IN  [t \in ts |-> Cardinality({w \in ws : Triple(kap, C, i, w) = t})]
Compilation(kap, C) == [i \in DOMAIN C |-> [v |-> BagOf(kap, C, i, 1), f |-> BagOf(kap, C, i, 2)]]

-----------------------------------------------------------------------------
(* meaning of revision parameters *)
Revised(kap, C, gp, gm) ==
    [w \in DOMAIN kap |-> kap[w] + SumOver(gp, {i \in DOMAIN C : C[i][w] = 1}) + SumOver(gm, {i \in DOMAIN C : C[i][w] = 2})]

RevOK(kap, C, gp, gm, fixp, fixm) ==
    /\ \A i \in DOMAIN C : gp[i] >= 0 /\ gm[i] >= 0
    /\ \A i \in DOMAIN fixp : gp[i] = fixp[i]
    /\ \A i \in DOMAIN fixm : gm[i] = fixm[i]
    /\ LET r == Revised(kap, C, gp, gm) IN \A i \in DOMAIN C : Accepts(r, C[i])

(* admissible parameters inside the box 0..U, honouring the fixed values *)
(* (PU bounds gamma-plus, U gamma-minus: any witness found is a witness)        *)
Admissible(kap, C, PU, U, plusZero, fixp, fixm) ==
    {pr \in [DOMAIN C -> 0..PU] \X [DOMAIN C -> 0..U] :
        /\ (plusZero => \A i \in DOMAIN C : i \notin DOMAIN fixp => pr[1][i] = 0)
        /\ RevOK(kap, C, pr[1], pr[2], fixp, fixm)}

(* gamma-minus vectors strictly below gm (fixed entries kept) that still work with the same gamma-plus *)
SmallerMinus(kap, C, gp, gm, fixp, fixm) ==
    {g \in [DOMAIN C -> 0..(IF DOMAIN C = {} THEN 0 ELSE MaxS({gm[i] : i \in DOMAIN C}))] :
        VecLess(g, gm) /\ RevOK(kap, C, gp, g, fixp, fixm)}
=============================================================================
