----------------------------- MODULE McsEnumCore -----------------------------
(***************************************************************************)
(* The state and the model-recording steps of the correction-set           *)
(* enumeration loop (see McsEnum.tla, which extends this module with the   *)
(* final superset filter).  Kept free of recursive operators so that the   *)
(* proof system can read it (McsEnumProof.tla).                            *)
(***************************************************************************)
EXTENDS Naturals, Sequences, FiniteSets, TLC

VARIABLES fam,      \* the family being enumerated (a set of sets of keys)
          found,    \* sets recorded so far, in the order the solver produced them
          phase,    \* "loop" | "done"
          result    \* returned list (a sequence of sets)

evars == <<fam, found, phase, result>>

Blocked(S) == \E i \in DOMAIN found : found[i] \subseteq S
Remaining  == {S \in fam : ~Blocked(S)}
MinimalOf(F) == {a \in F : ~\E b \in F : b # a /\ b \subseteq a}

EInit(F) == fam = F /\ found = <<>> /\ phase = "loop" /\ result = <<>>

(* one solver model: any assignment not yet excluded by the blocking clauses *)
Model(S) ==
    /\ phase = "loop" /\ S \in Remaining
    /\ found' = Append(found, S)
    /\ UNCHANGED <<fam, phase, result>>

(* What the real loop may report for a model.  The reported set is read off *)
(* the violated soft CLAUSES; with auxiliary (Tseitin / stale selector)     *)
(* variables a clause of a conditional can be violated although the         *)
(* model's atoms do not falsify that conditional, whenever that is          *)
(* cost-neutral.  Observed on the real code (lexicographic inference, rc2:  *)
(* the WCNF handed down the recursion keeps selector literals appended by   *)
(* an earlier RC2 instance, which alias pool ids of other conditionals).    *)
(* The property (C15) constrains the RESULT, so the step-level obligation   *)
(* is only: the reported set contains the falsification set of some         *)
(* assignment satisfying the hard clauses, and is not blocked.              *)
ModelReported(S) ==
    /\ phase = "loop" /\ ~Blocked(S)
    /\ \E F \in fam : F \subseteq S
    /\ found' = Append(found, S)
    /\ UNCHANGED <<fam, phase, result>>

(* a recorded set is never a superset of an earlier one (the blocking clauses work) *)
NoSupersetOfEarlier == \A i, j \in DOMAIN found : i < j => ~(found[i] \subseteq found[j])
=============================================================================
