----------------------------- MODULE InfOCFSyntax -----------------------------
(***************************************************************************)
(* The .cl language as documented (docs/CL_SYNTAX.md, parser/CKB.g4):      *)
(* a recognizer WITH MEANING over token sequences.                         *)
(*                                                                         *)
(* Formula tokens: "a" "b" (atoms), "T" (Top), "F" (Bottom), "!" "," ";"   *)
(* "(" ")" (and, at file level, the further identifiers "c" and "kb").      *)
(* Precedence: "!" binds tighter than "," (and), "," tighter    *)
(* than ";" (or); parentheses override; "," and ";" associate to the left. *)
(* The meaning of a formula is the set of worlds (1..4 over atoms a, b,    *)
(* a most significant) that satisfy it.                                    *)
(*                                                                         *)
(* File tokens add "sig" (keyword signature), "cond" (keyword              *)
(* conditionals), "nl" (newline), "{" "}" "|" and the identifiers "kb"     *)
(* (block name) and "c" (a third signature atom that formulas here never   *)
(* use).  Whitespace and comments are dropped by the lexer and are not     *)
(* tokens.                                                                 *)
(***************************************************************************)
EXTENDS Naturals, Sequences, FiniteSets, TLC

(* worlds 1..16 over the atoms a, b, c, kb (a most significant); formulas   *)
(* of the exhaustive universe use a and b only, file-level mutations may    *)
(* put any identifier into a formula                                        *)
W4 == 1..16
Bit(w, k) == ((w - 1) \div k) % 2 = 1
ValA == {w \in W4 : Bit(w, 8)}
ValB == {w \in W4 : Bit(w, 4)}
ValC == {w \in W4 : Bit(w, 2)}
ValK == {w \in W4 : Bit(w, 1)}

Fail == [ok |-> FALSE, val |-> {}, pos |-> 0]
Tok(t, i) == IF i <= Len(t) THEN t[i] ELSE "eof"

RECURSIVE POr(_, _), POrTail(_, _), PAnd(_, _), PAndTail(_, _), PNot(_, _), PAtom(_, _)

PAtom(t, i) ==
    LET x == Tok(t, i)
    IN  CASE x = "a" -> [ok |-> TRUE, val |-> ValA, pos |-> i + 1]
          [] x = "b" -> [ok |-> TRUE, val |-> ValB, pos |-> i + 1]
          [] x = "c" -> [ok |-> TRUE, val |-> ValC, pos |-> i + 1]
          [] x = "kb" -> [ok |-> TRUE, val |-> ValK, pos |-> i + 1]
          [] x = "T" -> [ok |-> TRUE, val |-> W4, pos |-> i + 1]
          [] x = "F" -> [ok |-> TRUE, val |-> {}, pos |-> i + 1]
          [] x = "(" -> LET r == POr(t, i + 1)
                        IN  IF r.ok /\ Tok(t, r.pos) = ")" THEN [r EXCEPT !.pos = r.pos + 1] ELSE Fail
          [] OTHER -> Fail

PNot(t, i) ==
    IF Tok(t, i) = "!"
    THEN LET r == PNot(t, i + 1) IN IF r.ok THEN [r EXCEPT !.val = W4 \ r.val] ELSE Fail
    ELSE PAtom(t, i)

PAndTail(t, acc) ==
    IF Tok(t, acc.pos) = ","
    THEN LET r == PNot(t, acc.pos + 1)
         IN  IF r.ok THEN PAndTail(t, [ok |-> TRUE, val |-> acc.val \cap r.val, pos |-> r.pos]) ELSE Fail
    ELSE acc
PAnd(t, i) == LET r == PNot(t, i) IN IF r.ok THEN PAndTail(t, r) ELSE Fail

POrTail(t, acc) ==
    IF Tok(t, acc.pos) = ";"
    THEN LET r == PAnd(t, acc.pos + 1)
         IN  IF r.ok THEN POrTail(t, [ok |-> TRUE, val |-> acc.val \cup r.val, pos |-> r.pos]) ELSE Fail
    ELSE acc
POr(t, i) == LET r == PAnd(t, i) IN IF r.ok THEN POrTail(t, r) ELSE Fail

(* a whole token string is a formula iff it is consumed entirely *)
ParseFormula(t) ==
    LET r == POr(t, 1)
    IN  IF r.ok /\ r.pos = Len(t) + 1 THEN [ok |-> TRUE, val |-> r.val] ELSE [ok |-> FALSE, val |-> {}]

(* result code used in emitted vectors: -1 rejected, else bitmask of the   *)
(* satisfying worlds (world w contributes 2^(w-1))                         *)
RECURSIVE MaskFrom(_, _, _)
MaskFrom(S, w, p) == IF w > 16 THEN 0 ELSE (IF w \in S THEN p ELSE 0) + MaskFrom(S, w + 1, 2 * p)
Mask(S) == MaskFrom(S, 1, 1)
Code(t) == LET r == ParseFormula(t) IN IF r.ok THEN Mask(r.val) ELSE 0 - 1

-----------------------------------------------------------------------------
(* File level, following CKB.g4:                                           *)
(*   ckbs         : signature conditionals+                                *)
(*   signature    : nl* "sig" nl+ myid                                     *)
(*   myid         : ID "," myid | ID nl                                    *)
(*   conditionals : nl* "cond" nl+ ID nl* "{" nl* "}" nl*                  *)
(*                | nl* "cond" nl+ ID nl* "{" nl* condition "}" nl* conditionals* *)
(*   condition    : "(" formula "|" formula ")" "," nl* condition          *)
(*                | "(" formula "|" formula ")" nl*                        *)
(* and the whole input must be consumed.                                   *)

IsId(x) == x \in {"a", "b", "c", "kb"}   \* "T"/"F" lex as identifiers too but are rejected as signature names

RECURSIVE SkipNl(_, _)
SkipNl(t, i) == IF Tok(t, i) = "nl" THEN SkipNl(t, i + 1) ELSE i

FFail == [ok |-> FALSE, sig |-> <<>>, conds |-> <<>>, pos |-> 0]

RECURSIVE PMyId(_, _, _)
PMyId(t, i, acc) ==
    IF ~(IsId(Tok(t, i)) \/ Tok(t, i) \in {"T", "F"}) THEN FFail
    ELSE IF Tok(t, i + 1) = "," THEN PMyId(t, i + 2, Append(acc, Tok(t, i)))
    ELSE IF Tok(t, i + 1) = "nl" THEN [ok |-> TRUE, sig |-> Append(acc, Tok(t, i)), conds |-> <<>>, pos |-> i + 2]
    ELSE FFail

RECURSIVE PCondition(_, _, _)
PCondition(t, i, acc) ==
    IF Tok(t, i) # "(" THEN FFail
    ELSE LET c == POr(t, i + 1)
         IN  IF ~(c.ok /\ Tok(t, c.pos) = "|") THEN FFail
             ELSE LET a == POr(t, c.pos + 1)
                  IN  IF ~(a.ok /\ Tok(t, a.pos) = ")") THEN FFail
                      ELSE LET acc2 == Append(acc, <<Mask(c.val), Mask(a.val)>>)
                           IN  IF Tok(t, a.pos + 1) = ","
                               THEN PCondition(t, SkipNl(t, a.pos + 2), acc2)
                               ELSE [ok |-> TRUE, sig |-> <<>>, conds |-> acc2, pos |-> SkipNl(t, a.pos + 1)]

(* one conditionals block starting at i (after optional newlines); returns the position after the block *)
PBlock(t, i0) ==
    LET i == SkipNl(t, i0)
    IN  IF Tok(t, i) # "cond" \/ Tok(t, i + 1) # "nl" THEN FFail
        ELSE LET j == SkipNl(t, i + 1)
             IN  IF ~(IsId(Tok(t, j)) \/ Tok(t, j) \in {"T", "F"}) THEN FFail
                 ELSE LET k == SkipNl(t, j + 1)
                      IN  IF Tok(t, k) # "{" THEN FFail
                          ELSE LET m == SkipNl(t, k + 1)
                               IN  IF Tok(t, m) = "}" THEN [ok |-> TRUE, sig |-> <<>>, conds |-> <<>>, pos |-> SkipNl(t, m + 1)]
                                   ELSE LET r == PCondition(t, m, <<>>)
                                        IN  IF r.ok /\ Tok(t, r.pos) = "}" THEN [r EXCEPT !.pos = SkipNl(t, r.pos + 1)]
                                            ELSE FFail

RECURSIVE MoreBlocks(_, _)
MoreBlocks(t, i) == IF i = Len(t) + 1 THEN TRUE
                    ELSE LET r == PBlock(t, i) IN r.ok /\ MoreBlocks(t, r.pos)

NoDup(s) == \A i, j \in DOMAIN s : i # j => s[i] # s[j]

(* the first block is the parsed belief base (parseCKB takes the first) *)
ParseBase(t) ==
    LET i == SkipNl(t, 1)
    IN  IF Tok(t, i) # "sig" \/ Tok(t, i + 1) # "nl" THEN FFail
        ELSE LET s == PMyId(t, SkipNl(t, i + 1), <<>>)
             IN  IF ~s.ok THEN FFail
                 ELSE IF ~NoDup(s.sig) \/ \E x \in DOMAIN s.sig : s.sig[x] \in {"T", "F"} THEN FFail
                 ELSE LET b == PBlock(t, s.pos)
                      IN  IF b.ok /\ MoreBlocks(t, b.pos)
                          THEN [ok |-> TRUE, sig |-> s.sig, conds |-> b.conds, pos |-> Len(t) + 1]
                          ELSE FFail

(* a query list (.clq): a non-empty `condition` list, consumed entirely    *)
ParseQueries(t) ==
    LET r == PCondition(t, SkipNl(t, 1), <<>>)
    IN  IF r.ok /\ r.pos = Len(t) + 1 THEN [ok |-> TRUE, conds |-> r.conds] ELSE [ok |-> FALSE, conds |-> <<>>]

=============================================================================
