---------------------------- MODULE RevisionProof ----------------------------
(***************************************************************************)
(* Unbounded companion of MC_Revision (checked by the TLA+ proof system):   *)
(* the per-world caches of the incremental compilation model stay exact     *)
(* under every sequence of Add / Remove, for ANY set of worlds, any indices *)
(* and any conditionals.                                                    *)
(***************************************************************************)
EXTENDS RevisionCore, TLAPS

CONSTANT WS

Next == \/ \E i, c : Add(i, c)
        \/ \E i : Remove(i)

Dom == DOMAIN acc = WS /\ DOMAIN rej = WS
Inv == Dom /\ CachesExact

THEOREM InitInv == RInit(WS) => Inv
  BY DEF RInit, Inv, Dom, CachesExact

THEOREM NextInv == Inv /\ [Next]_rvars => Inv'
  <1> SUFFICES ASSUME Inv, [Next]_rvars PROVE Inv' OBVIOUS
  <1> USE DEF Inv
  <1>1. CASE UNCHANGED rvars BY <1>1 DEF rvars, Dom, CachesExact
  <1>2. ASSUME NEW i, NEW c, Add(i, c) PROVE Inv'
    <2>1. /\ i \notin DOMAIN conds
          /\ conds' = [k \in (DOMAIN conds) \cup {i} |-> IF k = i THEN c ELSE conds[k]]
          /\ acc' = [w \in DOMAIN acc |-> IF c[w] = 1 THEN acc[w] \cup {i} ELSE acc[w]]
          /\ rej' = [w \in DOMAIN rej |-> IF c[w] = 2 THEN rej[w] \cup {i} ELSE rej[w]]
      BY <1>2 DEF Add
    <2>2. Dom' BY <2>1 DEF Dom
    <2>3. CachesExact'
      <3> SUFFICES ASSUME NEW w \in DOMAIN acc'
                   PROVE  /\ acc'[w] = {k \in DOMAIN conds' : conds'[k][w] = 1}
                          /\ rej'[w] = {k \in DOMAIN conds' : conds'[k][w] = 2}
        BY DEF CachesExact
      <3>1. w \in WS /\ w \in DOMAIN acc /\ w \in DOMAIN rej BY <2>1 DEF Dom
      <3>2. acc[w] = {k \in DOMAIN conds : conds[k][w] = 1} /\ rej[w] = {k \in DOMAIN conds : conds[k][w] = 2}
        BY <3>1 DEF CachesExact
      <3>3. DOMAIN conds' = (DOMAIN conds) \cup {i} BY <2>1
      <3>4. conds'[i] = c /\ \A k \in DOMAIN conds : conds'[k] = conds[k] BY <2>1
      <3>5. acc'[w] = {k \in DOMAIN conds' : conds'[k][w] = 1}
        <4>1. CASE c[w] = 1
          <5>1. acc'[w] = acc[w] \cup {i} BY <2>1, <3>1, <4>1
          <5>2. QED BY <5>1, <3>2, <3>3, <3>4, <4>1
        <4>2. CASE c[w] # 1
          <5>1. acc'[w] = acc[w] BY <2>1, <3>1, <4>2
          <5>2. QED BY <5>1, <3>2, <3>3, <3>4, <4>2
        <4>3. QED BY <4>1, <4>2
      <3>6. rej'[w] = {k \in DOMAIN conds' : conds'[k][w] = 2}
        <4>1. CASE c[w] = 2
          <5>1. rej'[w] = rej[w] \cup {i} BY <2>1, <3>1, <4>1
          <5>2. QED BY <5>1, <3>2, <3>3, <3>4, <4>1
        <4>2. CASE c[w] # 2
          <5>1. rej'[w] = rej[w] BY <2>1, <3>1, <4>2
          <5>2. QED BY <5>1, <3>2, <3>3, <3>4, <4>2
        <4>3. QED BY <4>1, <4>2
      <3>7. QED BY <3>5, <3>6
    <2>4. QED BY <2>2, <2>3
  <1>3. ASSUME NEW i, Remove(i) PROVE Inv'
    <2>1. /\ conds' = [k \in (DOMAIN conds) \ {i} |-> conds[k]]
          /\ acc' = [w \in DOMAIN acc |-> acc[w] \ {i}]
          /\ rej' = [w \in DOMAIN rej |-> rej[w] \ {i}]
      BY <1>3 DEF Remove
    <2>2. Dom' BY <2>1 DEF Dom
    <2>3. CachesExact'
      <3> SUFFICES ASSUME NEW w \in DOMAIN acc'
                   PROVE  /\ acc'[w] = {k \in DOMAIN conds' : conds'[k][w] = 1}
                          /\ rej'[w] = {k \in DOMAIN conds' : conds'[k][w] = 2}
        BY DEF CachesExact
      <3>1. w \in WS /\ w \in DOMAIN acc /\ w \in DOMAIN rej BY <2>1 DEF Dom
      <3>2. acc[w] = {k \in DOMAIN conds : conds[k][w] = 1} /\ rej[w] = {k \in DOMAIN conds : conds[k][w] = 2}
        BY <3>1 DEF CachesExact
      <3>3. DOMAIN conds' = (DOMAIN conds) \ {i} /\ \A k \in (DOMAIN conds) \ {i} : conds'[k] = conds[k] BY <2>1
      <3>4. acc'[w] = acc[w] \ {i} /\ rej'[w] = rej[w] \ {i} BY <2>1, <3>1
      <3>5. QED BY <3>2, <3>3, <3>4
    <2>4. QED BY <2>2, <2>3
  <1>4. QED BY <1>1, <1>2, <1>3 DEF Next

THEOREM Safety == RInit(WS) /\ [][Next]_rvars => []CachesExact
  <1>1. Inv => CachesExact BY DEF Inv
  <1>2. QED BY InitInv, NextInv, <1>1, PTL
=============================================================================
