----------------------------- MODULE ManagerLemma -----------------------------
(***************************************************************************)
(* Unbounded companion of Manager.tla's RowsOwnKey (checked by the TLA+    *)
(* proof system): if every collected result records the batch position it  *)
(* belongs to, carries that position's key, and -- unless flagged as timed  *)
(* out -- that position's true answer, then the table built BY POSITION     *)
(* (RowFor, Plumbing = "byIndex") gives every row its own key and a right   *)
(* or flagged answer, whatever the number of queries, the keys, the texts   *)
(* (equal texts included) and the order in which results arrived.           *)
(***************************************************************************)
THEOREM RowsByIndex ==
    ASSUME NEW Res, NEW Idx, NEW KeyOf(_), NEW Truth(_),
           \A i \in Idx : \E r \in Res : r.idx = i,
           \A r \in Res : /\ r.idx \in Idx
                          /\ r.key = KeyOf(r.idx)
                          /\ (~r.to => r.ans = Truth(r.idx))
    PROVE  \A i \in Idx :
              LET row == CHOOSE r \in Res : r.idx = i
              IN  /\ row.key = KeyOf(i)
                  /\ (~row.to => row.ans = Truth(i))
<1>1. SUFFICES ASSUME NEW i \in Idx
               PROVE  LET row == CHOOSE r \in Res : r.idx = i
                      IN  /\ row.key = KeyOf(i)
                          /\ (~row.to => row.ans = Truth(i))
  OBVIOUS
<1> DEFINE row == CHOOSE r \in Res : r.idx = i
<1>2. \E r \in Res : r.idx = i
  OBVIOUS
<1>3. row \in Res /\ row.idx = i
  BY <1>2
<1>4. row.key = KeyOf(i) /\ (~row.to => row.ans = Truth(i))
  BY <1>3
<1>5. QED
  BY <1>4
=============================================================================
