------------------------------ MODULE MC_TolLoop ------------------------------
(* every base of <= MaxB conditionals over the NW-world universe, both modes *)
EXTENDS TolLoop, Universe
CONSTANT MaxB
Init == \E idx \in BasesUpTo(MaxB), wk \in BOOLEAN : LInit(BaseOf(idx), WS, wk)
Spec == Init /\ [][LNext]_lvars
=============================================================================
