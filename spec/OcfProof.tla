------------------------------ MODULE OcfProof ------------------------------
(***************************************************************************)
(* Unbounded companion of MC_Ocf (checked by the TLA+ proof system):        *)
(* CacheExact and DiskExact are inductive for the life-cycle machine of     *)
(* Ocf.tla, for ANY set of worlds W, ANY set of rank values R, any number   *)
(* of objects, files and steps.                                             *)
(***************************************************************************)
EXTENDS Ocf, TLAPS

CONSTANTS W, R
ASSUME NoRankFresh == NoRank \notin R

ObjT  == [full : [W -> R], ranks : [W -> R \cup {NoRank}], aux : BOOLEAN]
SnapT == [full : [W -> R], ranks : [W -> R \cup {NoRank}]]
TypeOK == objs \in Seq(ObjT) /\ \E F : disk \in [F -> SnapT]

Next == \/ \E full \in [W -> R], aux \in BOOLEAN : Construct(full, aux)
        \/ \E full \in [W -> R] : ConstructFull(full)
        \/ \E o \in DOMAIN objs, w \in W, force \in BOOLEAN, result \in R : RankWorld(o, w, force, result)
        \/ \E o \in DOMAIN objs : ComputeAll(o)
        \/ \E o \in DOMAIN objs, S \in SUBSET W : Touch(o, S)
        \/ \E o \in DOMAIN objs, f \in STRING : Save(o, f)
        \/ \E o \in DOMAIN objs, f \in STRING : SaveFail(o, f)
        \/ \E f \in DOMAIN disk : Load(f)

Inv == TypeOK /\ CacheExact /\ DiskExact

LEMMA WorldsW == ASSUME TypeOK, NEW o \in DOMAIN objs PROVE Worlds(o) = W
  BY DEF TypeOK, ObjT, Worlds

THEOREM InitInv == OInit => Inv
  <1> SUFFICES ASSUME OInit PROVE Inv OBVIOUS
  <1>1. objs = <<>> /\ disk = [f \in {} |-> 0] BY DEF OInit
  <1>2. TypeOK
    <2>1. objs \in Seq(ObjT) BY <1>1
    <2>2. disk \in [{} -> SnapT] BY <1>1
    <2>3. QED BY <2>1, <2>2 DEF TypeOK
  <1>3. CacheExact BY <1>1 DEF CacheExact
  <1>4. DiskExact BY <1>1 DEF DiskExact
  <1>5. QED BY <1>2, <1>3, <1>4 DEF Inv

THEOREM FillType ==
    ASSUME TypeOK, NEW o \in DOMAIN objs, NEW S \in SUBSET W
    PROVE  /\ Fill(o, S) \in Seq(ObjT)
           /\ DOMAIN Fill(o, S) = DOMAIN objs
           /\ \A p \in DOMAIN objs : /\ Fill(o, S)[p].full = objs[p].full
                                     /\ \A w \in W : Fill(o, S)[p].ranks[w] \in {objs[p].ranks[w], objs[p].full[w]}
  <1>1. Worlds(o) = W BY WorldsW
  <1>2. objs \in Seq(ObjT) BY DEF TypeOK
  <1> DEFINE nr == [w \in W |-> IF w \in S THEN objs[o].full[w] ELSE objs[o].ranks[w]]
  <1>3. nr \in [W -> R \cup {NoRank}]
    BY <1>2 DEF ObjT
  <1>4. Fill(o, S) = [objs EXCEPT ![o].ranks = nr]
    BY <1>1 DEF Fill
  <1>5. [objs[o] EXCEPT !.ranks = nr] \in ObjT
    BY <1>2, <1>3 DEF ObjT
  <1>6. QED
    BY <1>2, <1>3, <1>4, <1>5 DEF ObjT

THEOREM NextInv == Inv /\ [Next]_ovars => Inv'
  <1> SUFFICES ASSUME Inv, [Next]_ovars PROVE Inv' OBVIOUS
  <1> USE DEF Inv
  <1>0. objs \in Seq(ObjT) BY DEF TypeOK
  <1>1. CASE UNCHANGED ovars
    BY <1>1 DEF ovars, TypeOK, CacheExact, DiskExact, Worlds
  <1>2. ASSUME NEW full \in [W -> R], NEW aux \in BOOLEAN, Construct(full, aux) PROVE Inv'
    <2> DEFINE x == [full |-> full, ranks |-> [w \in DOMAIN full |-> NoRank], aux |-> aux]
    <2>1. x \in ObjT BY DEF ObjT
    <2>2. objs' = Append(objs, x) /\ disk' = disk BY <1>2 DEF Construct
    <2>3. TypeOK' BY <1>0, <2>1, <2>2 DEF TypeOK
    <2>4. CacheExact' BY <1>0, <2>1, <2>2 DEF CacheExact, Worlds, ObjT
    <2>5. DiskExact' BY <2>2 DEF DiskExact
    <2>6. QED BY <2>3, <2>4, <2>5
  <1>3. ASSUME NEW full \in [W -> R], ConstructFull(full) PROVE Inv'
    <2> DEFINE x == [full |-> full, ranks |-> full, aux |-> FALSE]
    <2>1. x \in ObjT BY DEF ObjT
    <2>2. objs' = Append(objs, x) /\ disk' = disk BY <1>3 DEF ConstructFull
    <2>3. TypeOK' BY <1>0, <2>1, <2>2 DEF TypeOK
    <2>4. CacheExact' BY <1>0, <2>1, <2>2 DEF CacheExact, Worlds, ObjT
    <2>5. DiskExact' BY <2>2 DEF DiskExact
    <2>6. QED BY <2>3, <2>4, <2>5
  <1>4. ASSUME NEW o \in DOMAIN objs, NEW S \in SUBSET W, objs' = Fill(o, S), disk' = disk PROVE Inv'
    <2>1. /\ objs' \in Seq(ObjT) /\ DOMAIN objs' = DOMAIN objs
          /\ \A p \in DOMAIN objs : /\ objs'[p].full = objs[p].full
                                    /\ \A w \in W : objs'[p].ranks[w] \in {objs[p].ranks[w], objs[p].full[w]}
      BY <1>4, FillType
    <2>2. TypeOK' BY <2>1, <1>4 DEF TypeOK
    <2>3. CacheExact'
      <3> SUFFICES ASSUME NEW p \in DOMAIN objs', NEW w \in DOMAIN objs'[p].full
                   PROVE  objs'[p].ranks[w] \in {NoRank, objs'[p].full[w]}
        BY DEF CacheExact, Worlds
      <3>1. p \in DOMAIN objs /\ objs[p] \in ObjT /\ objs'[p] \in ObjT BY <2>1, <1>0
      <3>2. w \in W BY <3>1 DEF ObjT
      <3>3. objs[p].ranks[w] \in {NoRank, objs[p].full[w]} BY <3>1, <3>2 DEF CacheExact, Worlds, ObjT
      <3>4. QED BY <2>1, <3>1, <3>2, <3>3
    <2>4. DiskExact' BY <1>4 DEF DiskExact
    <2>5. QED BY <2>2, <2>3, <2>4
  <1>5. ASSUME NEW o \in DOMAIN objs, NEW w \in W, NEW force \in BOOLEAN, NEW result \in R, RankWorld(o, w, force, result) PROVE Inv'
    BY <1>5, <1>4 DEF RankWorld
  <1>6. ASSUME NEW o \in DOMAIN objs, ComputeAll(o) PROVE Inv'
    BY <1>6, <1>4, WorldsW DEF ComputeAll
  <1>7. ASSUME NEW o \in DOMAIN objs, NEW S \in SUBSET W, Touch(o, S) PROVE Inv'
    BY <1>7, <1>4 DEF Touch
  <1>8. ASSUME NEW o \in DOMAIN objs, NEW f \in STRING, Save(o, f) PROVE Inv'
    <2> DEFINE snap == [full |-> objs[o].full, ranks |-> objs[o].ranks]
    <2>1. objs' = objs /\ disk' = [g \in (DOMAIN disk) \cup {f} |-> IF g = f THEN snap ELSE disk[g]]
      BY <1>8 DEF Save
    <2>2. objs[o] \in ObjT BY <1>0
    <2>3. snap \in SnapT BY <2>2 DEF ObjT, SnapT
    <2>4. TypeOK'
      <3>1. PICK F : disk \in [F -> SnapT] BY DEF TypeOK
      <3>2. disk' \in [F \cup {f} -> SnapT] BY <2>1, <2>3, <3>1
      <3>3. QED BY <2>1, <3>2, <1>0 DEF TypeOK
    <2>5. CacheExact' BY <2>1 DEF CacheExact, Worlds
    <2>6. DiskExact'
      <3> SUFFICES ASSUME NEW g \in DOMAIN disk', NEW w \in DOMAIN disk'[g].full
                   PROVE  disk'[g].ranks[w] \in {NoRank, disk'[g].full[w]}
        BY DEF DiskExact
      <3>1. CASE g = f
        <4>1. disk'[g] = snap BY <2>1, <3>1
        <4>2. w \in Worlds(o) BY <4>1 DEF Worlds
        <4>3. QED BY <4>1, <4>2 DEF CacheExact
      <3>2. CASE g # f
        <4>1. g \in DOMAIN disk /\ disk'[g] = disk[g] BY <2>1, <3>2
        <4>2. QED BY <4>1 DEF DiskExact
      <3>3. QED BY <3>1, <3>2
    <2>7. QED BY <2>4, <2>5, <2>6
  <1>9. ASSUME NEW o \in DOMAIN objs, NEW f \in STRING, SaveFail(o, f) PROVE Inv'
    BY <1>9 DEF SaveFail, TypeOK, CacheExact, DiskExact, Worlds
  <1>10. ASSUME NEW f \in DOMAIN disk, Load(f) PROVE Inv'
    <2> DEFINE x == [full |-> disk[f].full, ranks |-> disk[f].ranks, aux |-> FALSE]
    <2>1. objs' = Append(objs, x) /\ disk' = disk BY <1>10 DEF Load
    <2>2. disk[f] \in SnapT BY DEF TypeOK
    <2>3. x \in ObjT BY <2>2 DEF ObjT, SnapT
    <2>4. TypeOK' BY <1>0, <2>1, <2>3 DEF TypeOK
    <2>5. CacheExact'
      <3> SUFFICES ASSUME NEW p \in DOMAIN objs', NEW w \in DOMAIN objs'[p].full
                   PROVE  objs'[p].ranks[w] \in {NoRank, objs'[p].full[w]}
        BY DEF CacheExact, Worlds
      <3>1. CASE p \in DOMAIN objs
        <4>1. objs'[p] = objs[p] BY <2>1, <3>1, <1>0
        <4>2. QED BY <4>1, <3>1 DEF CacheExact, Worlds
      <3>2. CASE p \notin DOMAIN objs
        <4>1. p = Len(objs) + 1 /\ objs'[p] = x BY <2>1, <3>2, <1>0, <2>3
        <4>2. w \in DOMAIN disk[f].full BY <4>1
        <4>3. QED BY <4>1, <4>2 DEF DiskExact
      <3>3. QED BY <3>1, <3>2
    <2>6. DiskExact' BY <2>1 DEF DiskExact
    <2>7. QED BY <2>4, <2>5, <2>6
  <1>11. QED
    BY <1>1, <1>2, <1>3, <1>5, <1>6, <1>7, <1>8, <1>9, <1>10 DEF Next
=============================================================================
