----------------------------- MODULE RevisionCore -----------------------------
(***************************************************************************)
(* The incremental compilation model of c-revision (CRevisionModel): the   *)
(* current revision conditionals and the per-world caches, with Add and    *)
(* Remove.  Kept free of the semantic core so that the proof system can    *)
(* read it (RevisionProof.tla); Revision.tla extends it.                   *)
(*                                                                         *)
(* conds : index -> semantic conditional                                   *)
(* acc, rej : world -> set of indices (verified / falsified by the world)  *)
(***************************************************************************)
VARIABLES conds, acc, rej
rvars == <<conds, acc, rej>>

RInit(WS) == conds = [i \in {} |-> 0] /\ acc = [w \in WS |-> {}] /\ rej = [w \in WS |-> {}]

Add(i, c) ==
    /\ i \notin DOMAIN conds
    /\ conds' = [k \in (DOMAIN conds) \cup {i} |-> IF k = i THEN c ELSE conds[k]]
    /\ acc' = [w \in DOMAIN acc |-> IF c[w] = 1 THEN acc[w] \cup {i} ELSE acc[w]]
    /\ rej' = [w \in DOMAIN rej |-> IF c[w] = 2 THEN rej[w] \cup {i} ELSE rej[w]]

Remove(i) ==
    /\ conds' = [k \in (DOMAIN conds) \ {i} |-> conds[k]]
    /\ acc' = [w \in DOMAIN acc |-> acc[w] \ {i}]
    /\ rej' = [w \in DOMAIN rej |-> rej[w] \ {i}]

(* the caches always say exactly which current conditionals a world verifies / falsifies *)
CachesExact ==
    \A w \in DOMAIN acc :
        /\ acc[w] = {i \in DOMAIN conds : conds[i][w] = 1}
        /\ rej[w] = {i \in DOMAIN conds : conds[i][w] = 2}
=============================================================================
