---------------------------- MODULE Trace_McsEnum ----------------------------
(***************************************************************************)
(* Step-level trace validation of the MaxSAT enumeration loop (rc2 path):  *)
(* every model the real loop obtained (the set of conditionals it reported *)
(* as violated, in order) must be an enabled Model step of McsEnum -- a    *)
(* set containing the falsification set of an assignment satisfying the    *)
(* hard clauses (see ModelReported) that no earlier blocking clause        *)
(* excludes -- and the loop may only stop when nothing is left; the        *)
(* returned list must be the machine's filter of the reported sets.        *)
(* TRACE_FILE: JSON array of [fam, steps, result]; fam/steps/result are    *)
(* sequences of key sequences.                                             *)
(***************************************************************************)
EXTENDS McsEnum, Json, IOUtils

VARIABLES t, l
tvars == <<t, l, evars>>
Log == JsonDeserialize(IOEnv.TRACE_FILE)
NT  == Len(Log)
ToSet(s) == {s[i] : i \in DOMAIN s}
SetsOf(ss) == {ToSet(ss[i]) : i \in DOMAIN ss}
Steps == Log[t].steps

Pick == /\ t = 0 /\ t' \in 1..NT /\ l' = 1
        /\ fam' = SetsOf(Log[t'].fam) /\ found' = <<>> /\ phase' = "loop" /\ result' = <<>>
TModel == t > 0 /\ l <= Len(Steps) /\ ModelReported(ToSet(Steps[l])) /\ l' = l + 1 /\ t' = t
TFinish ==
    /\ t > 0 /\ l = Len(Steps) + 1 /\ Finish /\ l' = l + 1 /\ t' = t
    /\ {result'[i] : i \in DOMAIN result'} = SetsOf(Log[t].result) /\ Len(result') = Len(Log[t].result)
TMatch == TModel \/ TFinish
Reject ==
    /\ t > 0 /\ l <= Len(Steps) + 1 /\ phase = "loop" /\ ~ENABLED TMatch
    /\ PrintT(ToJson([reject |-> t, at |-> l, remaining |-> Remaining, found |-> found]))
    /\ l' = Len(Steps) + 3 /\ t' = t /\ UNCHANGED evars
Accept == t > 0 /\ phase = "done" /\ l = Len(Steps) + 2 /\ PrintT(ToJson([accept |-> t])) /\ l' = Len(Steps) + 4 /\ t' = t /\ UNCHANGED evars

TInit == t = 0 /\ l = 0 /\ fam = {} /\ found = <<>> /\ phase = "loop" /\ result = <<>>
TNext == Pick \/ TMatch \/ Reject \/ Accept
TraceSpec == TInit /\ [][TNext]_tvars
TraceNoSuperset == NoSupersetOfEarlier
=============================================================================
