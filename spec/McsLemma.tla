------------------------------ MODULE McsLemma ------------------------------
(***************************************************************************)
(* Unbounded companion of McsEnum.tla (checked by the TLA+ proof system):  *)
(* when the enumeration loop stops -- every member of the family has a     *)
(* recorded subset -- and only members of the family were recorded, the    *)
(* inclusion-minimal recorded sets are exactly the inclusion-minimal       *)
(* members of the family.  No bound on the family or on the keys.          *)
(***************************************************************************)
MinimalOf(F) == {a \in F : ~\E b \in F : b # a /\ b \subseteq a}

THEOREM ExactAtFinish ==
    ASSUME NEW fam, NEW found,
           found \subseteq fam,
           \A S \in fam : \E F \in found : F \subseteq S
    PROVE  MinimalOf(found) = MinimalOf(fam)
<1>1. ASSUME NEW a \in MinimalOf(found) PROVE a \in MinimalOf(fam)
  <2>1. a \in found /\ a \in fam
    BY <1>1 DEF MinimalOf
  <2>2. ASSUME NEW b \in fam, b # a, b \subseteq a PROVE FALSE
    <3>1. PICK F \in found : F \subseteq b
      BY <2>2
    <3>2. F \subseteq a /\ F # a
      BY <3>1, <2>2
    <3>3. QED
      BY <3>1, <3>2, <1>1 DEF MinimalOf
  <2>3. QED
    BY <2>1, <2>2 DEF MinimalOf
<1>2. ASSUME NEW a \in MinimalOf(fam) PROVE a \in MinimalOf(found)
  <2>1. a \in fam
    BY <1>2 DEF MinimalOf
  <2>2. PICK F \in found : F \subseteq a
    BY <2>1
  <2>3. F = a
    BY <2>2, <1>2 DEF MinimalOf
  <2>4. a \in found
    BY <2>2, <2>3
  <2>5. QED
    BY <2>4, <1>2 DEF MinimalOf
<1>3. QED
  BY <1>1, <1>2
=============================================================================
