------------------------------- MODULE MC_Budget -------------------------------
(***************************************************************************)
(* All budget triples over {0, 1000, 5000} ms, preprocessing durations     *)
(* below / at / above the budgets, every placement of an expiry among the  *)
(* queries of <= 2 calls with batches of <= MaxBatch queries.              *)
(***************************************************************************)
EXTENDS Budget

CONSTANTS MaxCalls, MaxBatch

Env == [truth |-> <<"T", "F", "T">>, text |-> <<"t1", "t2", "t3">>, cons |-> TRUE]
Durations == {0, 400, 1000, 6000}
BudgetVals == {0, 1000, 5000}

RECURSIVE BatchesOfLen(_)
BatchesOfLen(n) == IF n = 0 THEN {<<>>} ELSE {Append(b, [key |-> n, q |-> q]) : b \in BatchesOfLen(n - 1), q \in 1..3}
Batches == UNION {BatchesOfLen(n) : n \in 1..MaxBatch}

Next ==
    \/ \E b \in Batches, m \in BOOLEAN, t \in BudgetVals, p \in BudgetVals, q \in BudgetVals :
           ncalls < MaxCalls /\ BCallStart(b, m, <<t, p, q>>)
    \/ BPrepSkip \/ BPrepRefuse(Env) \/ BPrepTimeout(Env)
    \/ \E d \in Durations : BPrepRun(Env, d) \/ BPrepRetry(Env, d)
    \/ \E i \in 1..MaxBatch, to \in BOOLEAN : BAnswer(Env, i, to) \/ BWorkerDone(Env, i, to)
    \/ \E i \in 1..MaxBatch : BWorkerLost(Env, i)
    \/ BSpawn \/ BCallReturn(Env) \/ BCallRaise

Spec == BInit /\ [][Next]_<<mvars, bvars>>

Safe     == NoUnflaggedWrong(Env)
NoRaise  == NoFaultRaise(Env)
RowsOK   == RowsOwnKey(Env)
(* without any budget nothing is ever flagged *)
NoSpuriousFlag == (pc = "idle" /\ table # <<>> /\ budgets = <<0, 0, 0>> /\ prep = "done") => \A i \in DOMAIN table : ~table[i].to /\ ~table[i].pto
=============================================================================
