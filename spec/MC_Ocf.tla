-------------------------------- MODULE MC_Ocf --------------------------------
(***************************************************************************)
(* All interleavings of lazy ranking, bulk ranking, save (from every       *)
(* partial-computation state), failed save and load, for rankings over 4   *)
(* worlds, up to MaxObjs objects and one file.                             *)
(***************************************************************************)
EXTENDS Ocf

CONSTANTS MaxObjs, MaxSteps
VARIABLE steps

Fulls == {<<0, 1, 2, 1>>, <<2, 0, 0, 3>>}
Files == {"f"}

Next ==
    /\ steps < MaxSteps /\ steps' = steps + 1
    /\ \/ \E k \in Fulls : Len(objs) < MaxObjs /\ Construct(k, TRUE)
       \/ \E o \in DOMAIN objs, w \in 1..4, fr \in BOOLEAN : RankWorld(o, w, fr, objs[o].full[w])
       \/ \E o \in DOMAIN objs : ComputeAll(o)
       \/ \E o \in DOMAIN objs, S \in SUBSET (1..4) : Touch(o, S)
       \/ \E o \in DOMAIN objs, f \in Files : Save(o, f) \/ SaveFail(o, f)
       \/ \E f \in Files : Len(objs) < MaxObjs /\ Load(f)

Spec == OInit /\ steps = 0 /\ [][Next]_<<ovars, steps>>

(* a loaded copy and its original agree wherever both have computed a rank, and complete to the same ranking *)
CopiesAgree == \A a, b \in DOMAIN objs : objs[a].full = objs[b].full =>
                  \A w \in 1..4 : objs[a].ranks[w] # NoRank /\ objs[b].ranks[w] # NoRank => objs[a].ranks[w] = objs[b].ranks[w]
=============================================================================
