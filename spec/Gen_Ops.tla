-------------------------------- MODULE Gen_Ops --------------------------------
(***************************************************************************)
(* Path G for the stateless operations: TLC enumerates EVERY base of the   *)
(* small universe (all multisets of 1..MaxB semantic conditionals over NW  *)
(* worlds) and prints, per base, what the specification requires of every  *)
(* operator for every query of the universe, of the consistency test and   *)
(* of the System Z ranking.  The harness replays these vectors into the    *)
(* real code.                                                              *)
(*                                                                         *)
(* Answer strings have one character per query number 0..3^NW-1.           *)
(***************************************************************************)
EXTENDS InfOCFSem, Universe, Json, IOUtils, SequencesExt

CONSTANTS MaxB, CU, WithC, WithAns     \* WithAns = FALSE: partitions only (cheap, used for the 3-conditional universe)

VARIABLES stage, base
vars == <<stage, base>>

RECURSIVE Cat(_, _)
Cat(f, i) == IF i = NC THEN "" ELSE (IF f[i] THEN "T" ELSE "F") \o Cat(f, i + 1)

Row(idx) ==
    LET B  == BaseOf(idx)
        P  == Part(B, WS)
        strong == P.inf = {}
        weak   == NoFal(B, P.inf, WS) # {}
        CR == IF strong /\ WithC THEN CReps(B, WS, CU) ELSE {}
        A(o, m) == Cat([i \in 0..(NC - 1) |->
                          CASE o = "p" -> PEntP(B, P, CondOf(i), WS, m)
                            [] o = "z" -> SysZP(B, P, CondOf(i), WS, m)
                            [] o = "w" -> SysWP(B, P, CondOf(i), WS, m)
                            [] o = "l" -> SysLexP(B, P, CondOf(i), WS, m)
                            [] o = "c" -> CInfFrom(CR, B, CondOf(i), WS)], 0)
        none == ""
    IN  IF ~WithAns
        THEN [b |-> idx, strong |-> strong, weak |-> weak,
              fin |-> [i \in DOMAIN P.fin |-> SetToSeq(P.fin[i])], inf |-> SetToSeq(P.inf)]
        ELSE
        [b |-> idx, strong |-> strong, weak |-> weak,
         fin |-> [i \in DOMAIN P.fin |-> SetToSeq(P.fin[i])], inf |-> SetToSeq(P.inf),
         kz0 |-> IF strong THEN [w \in WS |-> KZStar(B, WS, FALSE, w)] ELSE <<>>,
         kz1 |-> IF weak THEN [w \in WS |-> KZStar(B, WS, TRUE, w)] ELSE <<>>,
         p0 |-> IF strong THEN A("p", FALSE) ELSE none,
         z0 |-> IF strong THEN A("z", FALSE) ELSE none,
         w0 |-> IF strong THEN A("w", FALSE) ELSE none,
         l0 |-> IF strong THEN A("l", FALSE) ELSE none,
         c0 |-> IF strong /\ WithC THEN A("c", FALSE) ELSE none,
         p1 |-> IF weak THEN A("p", TRUE) ELSE none,
         z1 |-> IF weak THEN A("z", TRUE) ELSE none,
         w1 |-> IF weak THEN A("w", TRUE) ELSE none,
         l1 |-> IF weak THEN A("l", TRUE) ELSE none]

Init == stage = 0 /\ base = <<>>
Pick == stage = 0 /\ base' \in BasesUpTo(MaxB) /\ stage' = 1
Emit == stage = 1 /\ PrintT(ToJson(Row(base))) /\ stage' = 2 /\ UNCHANGED base
Next == Pick \/ Emit
Spec == Init /\ [][Next]_vars
=============================================================================
