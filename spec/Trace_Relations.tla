---------------------------- MODULE Trace_Relations ----------------------------
(***************************************************************************)
(* The Relations monitor: invariants that are implications / equalities    *)
(* between answers the real code gave to related questions.  It needs no   *)
(* world enumeration, so it applies to belief bases of any size (C08, C09, *)
(* C11, C12, C13).                                                         *)
(*                                                                         *)
(* Log (env TRACE_FILE): JSON array of records, field ev:                  *)
(*  incl   weakly, ans : record  config-name -> sequence of "T"/"F"/"X"    *)
(*         config names: p, z, w_<backend>, l_<backend>, c_<backend>        *)
(*         ("X" = no information: row flagged as timed out)                *)
(*  equal  ans : record name -> sequence of "T"/"F"/"X"/"E"                 *)
(*         all sequences must agree pointwise (back-ends, presentations,   *)
(*         batch contexts of one question)                                 *)
(*  post   name, prem : sequence of <<required, observed>>,                *)
(*         concl : <<required, observed>>      (postulate instance)        *)
(* A mismatch prints {"reject": l, "what": ...} and validation continues.  *)
(***************************************************************************)
EXTENDS Naturals, Sequences, FiniteSets, TLC, Json, IOUtils, SequencesExt

VARIABLES l, st
vars == <<l, st>>

Log == JsonDeserialize(IOEnv.TRACE_FILE)
N   == Len(Log)

Impl(a, b) == (a = "T") => (b # "F")       \* "X" carries no information on either side
Known(a)   == a \in {"T", "F"}

Names(ans) == DOMAIN ans
Pre(name, p) == Len(name) >= Len(p) /\ SubSeq(name, 1, Len(p)) = p

(* the inclusion chain of C08 for one query position i *)
InclAt(e, i) ==
    LET a == e.ans
        P == {n \in Names(a) : n = "p"}
        Z == {n \in Names(a) : n = "z"}
        Ws == {n \in Names(a) : Pre(n, "w_")}
        Ls == {n \in Names(a) : Pre(n, "l_")}
        Cs == {n \in Names(a) : Pre(n, "c_")}
    IN  /\ \A p \in P : \A z \in Z : Impl(a[p][i], a[z][i])
        /\ \A z \in Z : \A w \in Ws : Impl(a[z][i], a[w][i])
        /\ \A p \in P : \A w \in Ws : Impl(a[p][i], a[w][i])
        /\ \A w \in Ws : \A x \in Ls : Impl(a[w][i], a[x][i])
        /\ \A z \in Z : \A x \in Ls : Impl(a[z][i], a[x][i])
        /\ (~e.weakly => /\ \A p \in P : \A c \in Cs : Impl(a[p][i], a[c][i])
                         /\ \A c \in Cs : \A w \in Ws : Impl(a[c][i], a[w][i])
                         /\ \A c \in Cs : \A x \in Ls : Impl(a[c][i], a[x][i]))

AnyName(a) == CHOOSE n \in Names(a) : TRUE
QCount(a)  == Len(a[AnyName(a)])

InclBad(e) == {i \in 1..QCount(e.ans) : ~InclAt(e, i)}

EqualBad(e) ==
    {i \in 1..QCount(e.ans) :
        \E m, n \in Names(e.ans) : Known(e.ans[m][i]) /\ Known(e.ans[n][i]) /\ e.ans[m][i] # e.ans[n][i]}
    \cup {i \in 1..QCount(e.ans) : \E m \in Names(e.ans) : e.ans[m][i] = "E"}

PostOK(e) ==
    LET holds(pr) == pr[1] = pr[2]
    IN  (\A i \in DOMAIN e.prem : holds(e.prem[i])) => holds(e.concl)

Rej(ok, what) == IF ok THEN TRUE ELSE PrintT(ToJson([reject |-> l, what |-> what]))

Check(e) ==
    CASE e.ev = "incl"  -> Rej(InclBad(e) = {}, SetToSeq(InclBad(e)))
      [] e.ev = "equal" -> Rej(EqualBad(e) = {}, SetToSeq(EqualBad(e)))
      [] e.ev = "post"  -> Rej(PostOK(e), e.name)
      [] OTHER -> Rej(FALSE, "unknown event kind")

Init == l = 0 /\ st = 0
Pick == st = 0 /\ l' \in 1..N /\ st' = 1
Eval == st = 1 /\ Check(Log[l]) /\ st' = 2 /\ UNCHANGED l
Next == Pick \/ Eval
Spec == Init /\ [][Next]_vars
=============================================================================
