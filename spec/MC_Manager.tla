------------------------------ MODULE MC_Manager ------------------------------
(***************************************************************************)
(* Exhaustive model of call histories on one manager: every sequence of    *)
(* <= MaxCalls calls, every batch of <= MaxBatch queries from a pool of 4   *)
(* (two of them with the same text) under every assignment of distinct keys *)
(* from Keys, sequential and parallel evaluation with all completion orders.*)
(***************************************************************************)
EXTENDS Manager

CONSTANTS MaxCalls, MaxBatch, Keys, Cons

QIds  == 1..4
Env   == [truth |-> <<"T", "F", "T", "F">>,
          text  |-> <<"t1", "t2", "t1", "t3">>,      \* queries 1 and 3 share their text
          cons  |-> Cons]

RECURSIVE BatchesOfLen(_)
BatchesOfLen(n) ==
    IF n = 0 THEN {<<>>}
    ELSE {Append(b, [key |-> k, q |-> q]) : b \in BatchesOfLen(n - 1), k \in Keys, q \in QIds}
DistinctKeys(b) == \A i, j \in DOMAIN b : i # j => b[i].key # b[j].key
Batches == {b \in UNION {BatchesOfLen(n) : n \in 1..MaxBatch} : DistinctKeys(b)}

Next ==
    \/ \E b \in Batches, m \in BOOLEAN : ncalls < MaxCalls /\ CallStart(b, m)
    \/ PrepSkip \/ PrepRun(Env) \/ PrepRefuse(Env)
    \/ \E i \in 1..MaxBatch : Answer(Env, i, FALSE)
    \/ Spawn
    \/ \E i \in 1..MaxBatch : WorkerDone(Env, i, FALSE)
    \/ CallReturn(Env) \/ CallRaise

Spec == MInit /\ [][Next]_mvars
(* liveness (checked without a state constraint): under weak fairness every call that was started is completed, *)
(* whatever the completion order of the workers                                                                 *)
InCall == \/ PrepSkip \/ PrepRun(Env) \/ PrepRefuse(Env) \/ (\E i \in 1..MaxBatch : Answer(Env, i, FALSE)) \/ Spawn
          \/ (\E i \in 1..MaxBatch : WorkerDone(Env, i, FALSE)) \/ CallReturn(Env) \/ CallRaise
FairSpec == Spec /\ WF_mvars(InCall)
CallTerminates == (pc # "idle") ~> (pc = "idle")

RowsOK    == RowsOwnKey(Env)
NoLeak    == NoWorkersOutsideCall
(* a call on a consistent base never ends in an error; one on an inconsistent base always does *)
RefusalOK == (pc = "raise") <=> (~Cons /\ pc = "raise")
NeverRaiseIfCons == Cons => pc # "raise"
AlwaysRaiseIfNot == (~Cons /\ pc \in {"answer", "workers"}) => FALSE
=============================================================================
