---------------------------- MODULE McsEnumProof ----------------------------
(***************************************************************************)
(* Unbounded companion of MC_McsEnum (checked by the TLA+ proof system):    *)
(* for ANY family and any order in which the solver produces models, the    *)
(* enumeration loop of McsEnum.tla records only members of the family,      *)
(* never a superset of an earlier record, and when it stops (nothing is     *)
(* left unblocked) the inclusion-minimal recorded sets are exactly the      *)
(* inclusion-minimal members of the family (by McsLemma).  What remains     *)
(* model-checked only is that FilterSeq o SortBySize returns those minimal  *)
(* recorded sets, each once.                                                *)
(***************************************************************************)
EXTENDS McsEnumCore, TLAPS

L == INSTANCE McsLemma

CONSTANT Fam0

Recorded == {found[i] : i \in DOMAIN found}

Inv == /\ fam = Fam0
       /\ found \in Seq(Fam0)
       /\ NoSupersetOfEarlier

(* the loop as far as the recorded sets are concerned: models are recorded until none is left (McsEnum!Finish then *)
(* filters the recorded sets and changes neither fam nor found)                                                  *)
Next == \E S \in Fam0 : Model(S)

THEOREM InitInv == EInit(Fam0) => Inv
  <1> SUFFICES ASSUME EInit(Fam0) PROVE Inv OBVIOUS
  <1>1. fam = Fam0 /\ found = <<>> BY DEF EInit
  <1>2. found \in Seq(Fam0) BY <1>1
  <1>3. NoSupersetOfEarlier BY <1>1 DEF NoSupersetOfEarlier
  <1>4. QED BY <1>1, <1>2, <1>3 DEF Inv

THEOREM NextInv == Inv /\ [Next]_evars => Inv'
  <1> SUFFICES ASSUME Inv, [Next]_evars PROVE Inv' OBVIOUS
  <1> USE DEF Inv
  <1>1. CASE UNCHANGED evars BY <1>1 DEF evars, NoSupersetOfEarlier
  <1>2. ASSUME NEW S \in Fam0, Model(S) PROVE Inv'
    <2>1. /\ S \in Remaining /\ found' = Append(found, S) /\ fam' = fam BY <1>2 DEF Model
    <2>2. S \in fam /\ ~Blocked(S) BY <2>1 DEF Remaining
    <2>3. found' \in Seq(Fam0) BY <2>1
    <2>4. NoSupersetOfEarlier'
      <3> SUFFICES ASSUME NEW i \in DOMAIN found', NEW j \in DOMAIN found', i < j
                   PROVE  ~(found'[i] \subseteq found'[j])
        BY DEF NoSupersetOfEarlier
      <3>1. DOMAIN found' = 1..(Len(found) + 1) /\ Len(found) \in Nat /\ DOMAIN found = 1..Len(found) BY <2>1
      <3>2. CASE j \in DOMAIN found
        <4>1. i \in DOMAIN found BY <3>1, <3>2
        <4>2. found'[i] = found[i] /\ found'[j] = found[j] BY <2>1, <3>2, <4>1
        <4>3. QED BY <4>1, <4>2, <3>2 DEF NoSupersetOfEarlier
      <3>3. CASE j \notin DOMAIN found
        <4>1. j = Len(found) + 1 /\ found'[j] = S BY <2>1, <3>1, <3>3
        <4>2. i \in DOMAIN found /\ found'[i] = found[i] BY <2>1, <3>1, <4>1
        <4>3. QED BY <4>1, <4>2, <2>2 DEF Blocked
      <3>4. QED BY <3>2, <3>3
    <2>5. QED BY <2>1, <2>3, <2>4
  <1>4. QED BY <1>1, <1>2 DEF Next

(* when the solver reports unsat, the recorded sets determine the minimal members of the family *)
THEOREM AtFinish ==
    ASSUME Inv, Remaining = {}
    PROVE  L!MinimalOf(Recorded) = L!MinimalOf(fam)
  <1>1. Recorded \subseteq fam BY DEF Inv, Recorded
  <1>2. \A S \in fam : \E F \in Recorded : F \subseteq S
    <2> SUFFICES ASSUME NEW S \in fam PROVE \E F \in Recorded : F \subseteq S OBVIOUS
    <2>1. Blocked(S) BY DEF Remaining
    <2>2. QED BY <2>1 DEF Blocked, Recorded
  <1>3. QED BY <1>1, <1>2, L!ExactAtFinish
=============================================================================
