---------------------------- MODULE MC_SemTheorems ----------------------------
(***************************************************************************)
(* Model-checks the semantic core against theorems of the literature, so   *)
(* that it can serve as an oracle that is independent of the code.         *)
(*                                                                         *)
(* Universe: all semantic conditionals over NW worlds (3^NW of them,       *)
(* numbered 0..3^NW-1), bases = multisets of 1..MaxB of them (or the list  *)
(* in the JSON file named by env BASES_FILE when FromFile).                *)
(* Three-stage structure so that the expensive evaluation of each base is  *)
(* done by whichever worker dequeues it.                                   *)
(***************************************************************************)
EXTENDS InfOCFSem, Universe, Json, IOUtils

CONSTANTS MaxB,      \* maximal number of conditionals in a base
          FromFile,  \* TRUE: bases come from BASES_FILE (array of arrays of conditional numbers)
          Thms,      \* set of theorem names to evaluate
          CU         \* impact bound for c-inference theorems

VARIABLES stage, base, bad

vars == <<stage, base, bad>>

FileBases == IF FromFile THEN JsonDeserialize(IOEnv.BASES_FILE) ELSE <<>>
BaseIdx == IF FromFile THEN {FileBases[i] : i \in DOMAIN FileBases}
           ELSE BasesUpTo(MaxB)

-----------------------------------------------------------------------------
INF == NW
OCF       == {k \in [WS -> 0..INF] : \E w \in WS : k[w] = 0}
(* every ranking model may be normalised so that its finite ranks are < NW *)
AccAll(k, B) == \A i \in DOMAIN B : Acc(k, B[i], INF)
(* strict reading: a ranking model of the base must verify each conditional  *)
(* at a finite rank                                                          *)
AccAllStrict(k, B) == \A i \in DOMAIN B : RankOf(k, Ver(B[i]), INF) < RankOf(k, Fal(B[i]), INF)

Ans(o, B, P, q, weakly) ==
    CASE o = "p" -> PEntP(B, P, q, WS, weakly)
      [] o = "z" -> SysZP(B, P, q, WS, weakly)
      [] o = "w" -> SysWP(B, P, q, WS, weakly)
      [] o = "l" -> SysLexP(B, P, q, WS, weakly)
      [] o = "c" -> CInf(B, q, WS, CU)

(* propositions as world sets -> conditional (Bs|As) *)
Q(Bs, As) == [w \in WS |-> IF w \notin As THEN 0 ELSE IF w \in Bs THEN 1 ELSE 2]

Ops(weakly) == IF weakly THEN {"p", "z", "w", "l"} ELSE {"p", "z", "w", "l", "c"}

Failing(B) ==
    LET P      == Part(B, WS)
        strong == P.inf = {}
        weak   == NoFal(B, P.inf, WS) # {}
        ModelsS == {k \in OCF : (\A w \in WS : k[w] < INF) /\ AccAllStrict(k, B)}
        ModelsW == {k \in OCF : AccAll(k, B)}
        kz(weakly) == [w \in WS |-> KZStar(B, WS, weakly, w)]
        Inf(o, weakly, Bs, As) == Ans(o, B, P, Q(Bs, As), weakly)
    IN
    {t \in Thms :
       CASE t = "ThmStrict" ->
              strong /\ ~(\A q \in AllQ : PEntP(B, P, q, WS, FALSE) <=> \A k \in ModelsS : Acc(k, q, INF))
         [] t = "ThmWeak" ->
              weak /\ ~(\A q \in AllQ : PEntP(B, P, q, WS, TRUE) <=> \A k \in ModelsW : Acc(k, q, INF))
         [] t = "ModelsExist" ->   \* consistency = existence of a ranking model
              ~((strong <=> ModelsS # {}) /\ (weak <=> ModelsW # {}))
         [] t = "Coincide" ->
              strong /\ ~(\A q \in AllQ : \A o \in {"p", "z", "w", "l"} :
                            Ans(o, B, P, q, FALSE) = Ans(o, B, P, q, TRUE))
         [] t = "Incl" ->
              \/ strong /\ ~(\A q \in AllQ :
                     /\ Ans("p", B, P, q, FALSE) => Ans("z", B, P, q, FALSE)
                     /\ Ans("z", B, P, q, FALSE) => Ans("w", B, P, q, FALSE)
                     /\ Ans("w", B, P, q, FALSE) => Ans("l", B, P, q, FALSE))
              \/ weak /\ ~(\A q \in AllQ :
                     /\ Ans("p", B, P, q, TRUE) => Ans("z", B, P, q, TRUE)
                     /\ Ans("z", B, P, q, TRUE) => Ans("w", B, P, q, TRUE)
                     /\ Ans("w", B, P, q, TRUE) => Ans("l", B, P, q, TRUE))
         [] t = "InclC" ->
              strong /\ ~(\A q \in AllQ :
                     /\ Ans("p", B, P, q, FALSE) => Ans("c", B, P, q, FALSE)
                     /\ Ans("c", B, P, q, FALSE) => Ans("w", B, P, q, FALSE))
         [] t = "CBound" ->      \* stability of the impact bound
              strong /\ ~(\A q \in AllQ : CInf(B, q, WS, CU) = CInf(B, q, WS, CU + 2))
         [] t = "ZModel" ->      \* the Z-ranking is a model of the base (top rank = infinity)
              \/ strong /\ ~(\A i \in DOMAIN B : Acc(kz(FALSE), B[i], Len(P.fin) + 1))
              \/ weak   /\ ~(\A i \in DOMAIN B : Acc(kz(TRUE), B[i], Len(P.fin) + 1))
         [] t = "ZAccept" ->     \* System Z = acceptance by the Z-ranking when A has a feasible model
              \/ strong /\ ~(\A q \in AllQ : App(q) # {} =>
                              (SysZP(B, P, q, WS, FALSE) <=> Acc(kz(FALSE), q, Len(P.fin) + 1)))
              \/ weak   /\ ~(\A q \in AllQ : (App(q) \cap NoFal(B, P.inf, WS)) # {} =>
                              (SysZP(B, P, q, WS, TRUE) <=> Acc(kz(TRUE), q, Len(P.fin) + 1)))
         [] t = "Direct" ->      \* direct inference
              \/ strong /\ ~(\A i \in DOMAIN B : \A o \in Ops(FALSE) : Ans(o, B, P, B[i], FALSE))
              \/ weak   /\ ~(\A i \in DOMAIN B : \A o \in Ops(TRUE) : Ans(o, B, P, B[i], TRUE))
         [] t = "WOrder" ->      \* <_w strict partial order, lex order extends it
              LET n == Len(P.fin)
                  wl(a, b) == WLess(B, P.fin, n, a, b)
                  ll(a, b) == LexLess(B, P.fin, n, a, b)
              IN ~(\A a, b \in WS :
                      /\ ~wl(a, a) /\ ~ll(a, a)
                      /\ (wl(a, b) => ll(a, b))
                      /\ (\A c \in WS : (wl(a, b) /\ wl(b, c)) => wl(a, c))
                      /\ (\A c \in WS : (ll(a, b) /\ ll(b, c)) => ll(a, c))
                      /\ (\A c \in WS : ll(a, b) => (ll(a, c) \/ ll(c, b))))
         [] t = "SysP" ->
              \E weakly \in BOOLEAN :
                 /\ (IF weakly THEN weak ELSE strong)
                 /\ \E o \in Ops(weakly) : ~(\A A \in SUBSET WS : \A X \in SUBSET WS :
                      /\ Inf(o, weakly, A, A)                                           \* REF
                      /\ (A \subseteq X => Inf(o, weakly, X, A))                        \* SCL
                      /\ \A C \in SUBSET WS :
                           /\ ((Inf(o, weakly, X, A) /\ X \subseteq C) => Inf(o, weakly, C, A))            \* RW
                           /\ ((Inf(o, weakly, X, A) /\ Inf(o, weakly, C, A)) => Inf(o, weakly, X \cap C, A)) \* AND
                           /\ ((Inf(o, weakly, C, A) /\ Inf(o, weakly, C, X)) => Inf(o, weakly, C, A \cup X)) \* OR
                           /\ ((Inf(o, weakly, X, A) /\ Inf(o, weakly, C, A)) => Inf(o, weakly, C, A \cap X)) \* CM
                           /\ ((Inf(o, weakly, X, A) /\ Inf(o, weakly, C, A \cap X)) => Inf(o, weakly, C, A))) \* CUT
         [] t = "ConsPres" ->    \* strict mode: (Bottom|A) only for unsatisfiable A
              strong /\ \E o \in Ops(FALSE) : \E A \in (SUBSET WS) \ {{}} : Inf(o, FALSE, {}, A)
         [] t = "RM" ->
              \E weakly \in BOOLEAN :
                 /\ (IF weakly THEN weak ELSE strong)
                 /\ \E o \in {"z", "l"} : ~(\A A \in SUBSET WS : \A X \in SUBSET WS : \A C \in SUBSET WS :
                        (Inf(o, weakly, C, A) /\ ~Inf(o, weakly, WS \ X, A)) => Inf(o, weakly, C, A \cap X))
         [] OTHER -> FALSE}

-----------------------------------------------------------------------------
Init == stage = 0 /\ base = <<>> /\ bad = {}

Pick == stage = 0 /\ base' \in BaseIdx /\ stage' = 1 /\ UNCHANGED bad
Eval == stage = 1 /\ bad' = Failing(BaseOf(base)) /\ stage' = 2 /\ UNCHANGED base

Next == Pick \/ Eval
Spec == Init /\ [][Next]_vars

TheoremsHold == bad = {}
=============================================================================
