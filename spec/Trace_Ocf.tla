------------------------------- MODULE Trace_Ocf -------------------------------
(***************************************************************************)
(* Trace validation of ranking-object life cycles (C16, C17, C18, C20)     *)
(* against the Ocf machine, with the ranking each object stands for        *)
(* computed from the semantic core.                                        *)
(* TRACE_FILE: JSON array of traces [env, events].                         *)
(*  env: nw, kind ("z" | "c" | "custom"), base (semantic conditionals),    *)
(*       facts (world sets), extended ("N"/"T"/"F"), custom (ranks)        *)
(*  events (ranks: the object's cache after the call, -1 = not computed):  *)
(*   construct outcome ("ok"/"refused"), aux, impacts                      *)
(*   rank o w force result ranks | all o ranks                             *)
(*   frank o worlds result ranks | accept o cond result ranks              *)
(*   zop cond result          (the System Z operator's answer, C16)        *)
(*   cop cond result          (the c-inference operator's answer, C17)     *)
(*   front vectors bound      (c_inference_pareto_front, C17)              *)
(*   save o file ok ranks aux | load file o ranks                          *)
(*   same a b                 (two projections that must be equal, C20)    *)
(*   zview o layers extended inf_index inf_keys sizes                      *)
(*                            (System Z object's partition accessors)      *)
(***************************************************************************)
EXTENDS Ocf, InfOCFSem, Json, IOUtils

VARIABLES t, l
tvars == <<t, l, objs, disk>>

Log == JsonDeserialize(IOEnv.TRACE_FILE)
NT  == Len(Log)
E   == Log[t].env
Ev  == Log[t].events
Cur == Ev[l]
WS  == 1..E.nw

ToSet(s) == {s[i] : i \in DOMAIN s}
Facts == [i \in DOMAIN E.facts |-> ToSet(E.facts[i])]
(* facts switch to extended mode unless extended is given explicitly *)
ZMode == IF E.extended = "N" THEN (Facts # <<>>) ELSE E.extended = "T"
ZBase == Augment(E.base, Facts, WS)
ZFull == [w \in WS |-> KZStar(ZBase, WS, ZMode, w)]
CFull(imp) == [w \in WS |-> Kappa(E.base, imp, w)]
SeqEq(a, b) == Len(a) = Len(b) /\ \A i \in 1..Len(a) : a[i] = b[i]

IsEvent(name) == t > 0 /\ l <= Len(Ev) /\ Cur.ev = name /\ l' = l + 1 /\ t' = t
RanksAre(o, r) == SeqEq(objs'[o].ranks, r)

TConstruct ==
    /\ IsEvent("construct")
    /\ CASE E.kind = "z" ->
              IF ConsistentFor(ZBase, WS, ZMode)
              THEN Cur.outcome = "ok" /\ Construct(ZFull, Cur.aux)
              ELSE Cur.outcome = "refused" /\ UNCHANGED <<objs, disk>>
         [] E.kind = "c" ->
              \* C17: non-negative impacts of a Pareto-minimal c-representation
              /\ Cur.outcome = "ok"
              /\ \A i \in DOMAIN Cur.impacts : Cur.impacts[i] >= 0
              /\ IsCRep(E.base, Cur.impacts, WS)
              /\ SmallerCReps(E.base, Cur.impacts, WS) = {}
              /\ Construct(CFull(Cur.impacts), Cur.aux)
         [] E.kind = "custom" -> Cur.outcome = "ok" /\ ConstructFull(E.custom)

TRank == IsEvent("rank") /\ RankWorld(Cur.o, Cur.w, Cur.force, Cur.result) /\ RanksAre(Cur.o, Cur.ranks)
TAll  == IsEvent("all") /\ ComputeAll(Cur.o) /\ RanksAre(Cur.o, Cur.ranks)
TFRank ==
    /\ IsEvent("frank") /\ Cur.o \in DOMAIN objs
    /\ Cur.result = FRank(objs[Cur.o].full, ToSet(Cur.worlds))
    /\ Touch(Cur.o, ToSet(Cur.worlds)) /\ RanksAre(Cur.o, Cur.ranks)
TAccept ==
    /\ IsEvent("accept") /\ Cur.o \in DOMAIN objs
    /\ Cur.result = Accepts(objs[Cur.o].full, Cur.cond)
    /\ Touch(Cur.o, App(Cur.cond)) /\ RanksAre(Cur.o, Cur.ranks)
(* C16: whenever the antecedent has a feasible model the object's verdict is the operator's answer *)
TZop ==
    /\ IsEvent("zop") /\ UNCHANGED <<objs, disk>>
    /\ LET P == Part(ZBase, WS)
           feasA == App(Cur.cond) \cap FeasP(ZBase, P, WS, ZMode)
       IN  /\ Cur.result = SysZP(ZBase, P, Cur.cond, WS, ZMode)
           /\ (feasA # {} => Cur.result = Accepts(ZFull, Cur.cond))
(* C17: whatever c-inference infers (satisfiable antecedent) the c-representation object accepts *)
TCop ==
    /\ IsEvent("cop") /\ UNCHANGED <<objs, disk>>
    /\ (Cur.result /\ App(Cur.cond) # {}) => Accepts(objs[1].full, Cur.cond)
(* C17: the enumerated Pareto front: exactly the Pareto-minimal impact vectors *)
TFront ==
    /\ IsEvent("front") /\ UNCHANGED <<objs, disk>>
    /\ LET vs == {Cur.vectors[i] : i \in DOMAIN Cur.vectors}
           U  == Cur.bound
       IN  /\ Cardinality(vs) = Len(Cur.vectors)                                   \* each once
           /\ \A v \in vs : IsCRep(E.base, v, WS) /\ SmallerCReps(E.base, v, WS) = {} \* only Pareto-minimal c-representations
           /\ \A eta \in ParetoMin(CReps(E.base, WS, U)) :                          \* all of them (up to the bound)
                  \E v \in vs : \A k \in DOMAIN E.base : v[k] = eta[k]
(* further PreOCF behaviour beyond the listed properties: is_ocf (every rank computed and non-negative) and        *)
(* conditionalize_existing_ranks (the worlds of the condition with their CACHED ranks, nothing is computed)           *)
TIsOcf ==
    /\ IsEvent("isocf") /\ Cur.o \in DOMAIN objs /\ UNCHANGED <<objs, disk>>
    /\ Cur.result = (\A w \in Worlds(Cur.o) : objs[Cur.o].ranks[w] # NoRank /\ objs[Cur.o].ranks[w] >= 0)
TCondExisting ==
    /\ IsEvent("condexist") /\ Cur.o \in DOMAIN objs /\ UNCHANGED <<objs, disk>>
    /\ {<<Cur.result[i][1], Cur.result[i][2]>> : i \in DOMAIN Cur.result} = {<<w, objs[Cur.o].ranks[w]>> : w \in ToSet(Cur.worlds)}
    /\ Len(Cur.result) = Cardinality(ToSet(Cur.worlds))
TSave ==
    /\ IsEvent("save") /\ Cur.o \in DOMAIN objs
    /\ IF Cur.ok THEN Save(Cur.o, Cur.file) ELSE SaveFail(Cur.o, Cur.file)
    /\ RanksAre(Cur.o, Cur.ranks) /\ Cur.aux = objs[Cur.o].aux
TLoad == IsEvent("load") /\ Load(Cur.file) /\ Cur.o = Len(objs') /\ RanksAre(Cur.o, Cur.ranks)
TSame == IsEvent("same") /\ Cur.a = Cur.b /\ UNCHANGED <<objs, disk>>

(* the partition a System Z ranking object reports about itself (partition_layer_sizes, uses_extended_partition, *)
(* infinity_partition_index, infinity_partition) is the tolerance partition of the augmented base; a reloaded    *)
(* copy reports the same                                                                                          *)
TZView ==
    /\ IsEvent("zview") /\ E.kind = "z" /\ Cur.o \in DOMAIN objs
    /\ LET pr == PartitionResult(ZBase, WS, ZMode)
           n  == Len(pr[2])
       IN  /\ pr[1]
           /\ Len(Cur.layers) = n /\ \A i \in 1..n : ToSet(Cur.layers[i]) = pr[2][i] /\ Len(Cur.layers[i]) = Cardinality(pr[2][i])
           /\ Len(Cur.sizes) = n /\ \A i \in 1..n : Cur.sizes[i] = Cardinality(pr[2][i])
           /\ Cur.extended = ZMode
           /\ Cur.inf_index = (IF ZMode THEN n - 1 ELSE 0 - 1)
           /\ (ZMode => ToSet(Cur.inf_keys) = pr[2][n])
           /\ (~ZMode => Cur.inf_keys = <<>>)
    /\ UNCHANGED <<objs, disk>>

TMatch == TZView \/ TConstruct \/ TRank \/ TAll \/ TFRank \/ TAccept \/ TZop \/ TCop \/ TFront \/ TIsOcf \/ TCondExisting \/ TSave \/ TLoad \/ TSame

Reject ==
    /\ t > 0 /\ l <= Len(Ev) /\ ~ENABLED TMatch
    /\ PrintT(ToJson([reject |-> t, at |-> l, event |-> Cur,
                      state |-> [nobjs |-> Len(objs), files |-> DOMAIN disk,
                                 full |-> IF Cur.ev \in {"rank", "all", "frank", "accept", "save"} /\ Cur.o \in DOMAIN objs THEN objs[Cur.o].full ELSE <<>>,
                                 zfull |-> IF E.kind = "z" /\ Cur.ev \in {"construct", "zop"} /\ ConsistentFor(ZBase, WS, ZMode) THEN ZFull ELSE <<>>]]))
    /\ l' = Len(Ev) + 2 /\ t' = t /\ UNCHANGED <<objs, disk>>
Accept == /\ t > 0 /\ l = Len(Ev) + 1 /\ PrintT(ToJson([accept |-> t])) /\ l' = Len(Ev) + 3 /\ t' = t /\ UNCHANGED <<objs, disk>>
PickTrace == t = 0 /\ t' \in 1..NT /\ l' = 1 /\ UNCHANGED <<objs, disk>>

TInit == t = 0 /\ l = 0 /\ OInit
TNext == PickTrace \/ TMatch \/ Reject \/ Accept
TraceSpec == TInit /\ [][TNext]_tvars

TraceCacheExact == CacheExact
TraceDiskExact  == DiskExact
=============================================================================
