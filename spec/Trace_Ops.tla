------------------------------- MODULE Trace_Ops -------------------------------
(***************************************************************************)
(* Validation of recorded, self-contained operation events of the real     *)
(* code against the semantic core (path T for the stateless operations).   *)
(*                                                                         *)
(* The log (env TRACE_FILE, a JSON array) holds one record per observed    *)
(* call.  Each record carries the call's input projected to spec values    *)
(* (semantic conditionals as tuples over 1..nw) and the observed result.   *)
(* For every record the spec computes the only admissible result; a        *)
(* mismatch is printed as one JSON line  {"reject": l, "exp": .., "obs": ..}*)
(* and validation continues with the other records.                        *)
(*                                                                         *)
(* Event kinds (field ev):                                                 *)
(*   infer      sys, weakly, base, qs, raised, obs   (obs: "T"/"F" per query)*)
(*   partition  weakly, base, ok, layers             (layers: key positions)*)
(*   diag       base, facts, extended, uses_facts, flags                   *)
(*   cwit       base, q, eta, ans       witness check for c-inference False*)
(***************************************************************************)
EXTENDS InfOCFSem, Json, IOUtils

VARIABLES l, st
vars == <<l, st>>

Log == JsonDeserialize(IOEnv.TRACE_FILE)
N   == Len(Log)

B2S(b) == IF b THEN "T" ELSE "F"
(* TLC does not identify a function over 1..n with a tuple inside records, *)
(* so sequences are compared pointwise                                      *)
SeqEq(a, b) == Len(a) = Len(b) /\ \A i \in 1..Len(a) : a[i] = b[i]
WSof(e) == 1..e.nw

(* JSON arrays arrive as sequences; a base is the sequence of its conditionals *)
InferExp(e) ==
    LET WS == WSof(e)
        B  == e.base
        P  == Part(B, WS)
        CR == CReps(B, WS, e.cu)
        refuse == (B = <<>>) \/ ~(IF e.weakly THEN NoFal(B, P.inf, WS) # {} ELSE P.inf = {})
        one(q) == CASE e.sys = "p" -> PEntP(B, P, q, WS, e.weakly)
                    [] e.sys = "z" -> SysZP(B, P, q, WS, e.weakly)
                    [] e.sys = "w" -> SysWP(B, P, q, WS, e.weakly)
                    [] e.sys = "l" -> SysLexP(B, P, q, WS, e.weakly)
                    [] e.sys = "c" -> CInfFrom(CR, B, q, WS)
    IN  IF refuse THEN [raised |-> TRUE, obs |-> <<>>]
        ELSE [raised |-> FALSE, obs |-> [i \in DOMAIN e.qs |-> B2S(one(e.qs[i]))]]

InferObs(e) == [raised |-> e.raised, obs |-> e.obs]

(* c-inference is decided by witnesses (DESIGN 6, C05):                    *)
(*   code True  is wrong iff a c-representation within the bound rejects q *)
(*   code False is right iff such a c-representation exists; if the bound  *)
(*   is too small to find one the event is reported as inconclusive, never *)
(*   as a rejection.                                                       *)
InferOK(e) ==
    IF e.sys # "c" THEN LET x == InferExp(e) IN x.raised = e.raised /\ SeqEq(x.obs, e.obs)
    ELSE LET x == InferExp(e)
         IN  IF x.raised \/ e.raised THEN x.raised = e.raised
             ELSE /\ Len(e.obs) = Len(e.qs)
                  /\ \A i \in DOMAIN e.qs :
                        \/ e.obs[i] = x.obs[i]
                        \/ (e.obs[i] = "F" /\ x.obs[i] = "T" /\ e.cu < e.cusafe /\
                            PrintT(ToJson([inconclusive |-> l, query |-> i])))

PartExp(e) ==
    LET r == PartitionResult(e.base, WSof(e), e.weakly)
    IN  [ok |-> r[1], layers |-> r[2]]
PartObs(e) == [ok |-> e.ok, layers |-> [i \in DOMAIN e.layers |-> {e.layers[i][j] : j \in DOMAIN e.layers[i]}]]

T3(b) == IF b THEN "T" ELSE "F"
DiagExp(e) ==
    LET WS == WSof(e)
        B  == e.base
        F  == [i \in DOMAIN e.facts |-> {e.facts[i][j] : j \in DOMAIN e.facts[i]}]
        A  == Augment(B, F, WS)
    IN  [facts    |-> IF e.uses_facts THEN T3(DiagFactsSat(F, WS)) ELSE "N",
         base     |-> IF e.extended THEN T3(Strong(B, WS)) ELSE T3(Strong(B, WS)),
         weak     |-> IF e.extended THEN T3(Weak(B, WS)) ELSE "N",
         comb     |-> IF e.uses_facts THEN T3(ConsistentFor(A, WS, e.extended)) ELSE "N",
         grew     |-> IF e.uses_facts /\ e.extended /\ Weak(B, WS) /\ Weak(A, WS)
                      THEN T3(InfSize(A, WS) > InfSize(B, WS)) ELSE "N"]

(* a vector eta reported by the code as a c-representation refuting q *)
CWitOK(e) ==
    LET WS == WSof(e)
        B  == e.base
        V  == {w \in WS : e.q[w] = 1}
        Nn == {w \in WS : e.q[w] = 2}
    IN  /\ IsCRep(B, e.eta, WS)
        /\ Nn # {}
        /\ (V = {} \/ ~(MinS({Kappa(B, e.eta, w) : w \in V}) < MinS({Kappa(B, e.eta, w) : w \in Nn})))

(* C15a: the clause sets produced for verification / falsification /      *)
(* non-falsification of (B|A), decided per total assignment by independent *)
(* SAT calls of the harness, against the truth table of the formula trees  *)
ToSet(s) == {s[i] : i \in DOMAIN s}
CnfExp(e) ==
    LET c == SemCond(e.B, e.A, e.sig)
    IN  [v |-> Ver(c), f |-> Fal(c), nf |-> (DOMAIN c) \ Fal(c)]
CnfOK(e) == LET x == CnfExp(e) IN
    /\ (e.has.v => ToSet(e.v) = x.v) /\ (e.has.f => ToSet(e.f) = x.f) /\ (e.has.nf => ToSet(e.nf) = x.nf)

(* C15b: result of one minimal-correction-subset enumeration.  hard: the    *)
(* assignments satisfying the hard clauses; fal: <<key, assignments under   *)
(* which the soft group of that conditional is unsatisfiable>>              *)
McsExp(e) ==
    LET hw == ToSet(e.hard)
        fam == {{e.fal[i][1] : i \in {j \in DOMAIN e.fal : w \in ToSet(e.fal[j][2])}} : w \in hw}
    IN  MinimalSets(fam)
McsOK(e) ==
    LET res == {ToSet(e.result[i]) : i \in DOMAIN e.result}
    IN  /\ res = McsExp(e)
        /\ Cardinality(res) = Len(e.result)              \* each exactly once
        /\ \A i \in DOMAIN e.result : Cardinality(ToSet(e.result[i])) = Len(e.result[i])

(* C18: laws of ranking-function operations for an arbitrary ranking e.kap  *)
(* (-1 = undefined rank)                                                   *)
LawExp(e) ==
    CASE e.ev = "frank"  -> FRank(e.kap, ToSet(e.worlds))
      [] e.ev = "accept" -> Accepts(e.kap, e.cond)
      [] e.ev = "marg"   -> Marg(e.kap, e.keep, e.natoms)
      [] e.ev = "cond"   -> CondOn(e.kap, ToSet(e.worlds))
      [] e.ev = "tpo"    -> Tpo(e.kap)
LawOK(e) ==
    CASE e.ev = "frank"  -> e.result = LawExp(e)
      [] e.ev = "accept" -> e.result = LawExp(e)
      [] e.ev = "marg"   -> SeqEq(e.result, LawExp(e))
      [] e.ev = "cond"   -> {<<e.result[i][1], e.result[i][2]>> : i \in DOMAIN e.result} = LawExp(e) /\ Cardinality(LawExp(e)) = Len(e.result)
      [] e.ev = "tpo"    -> /\ Len(e.layers) = Len(Tpo(e.kap))
                            /\ \A i \in DOMAIN e.layers : ToSet(e.layers[i]) = Tpo(e.kap)[i]
                            /\ SeqEq(e.back_rank, e.kap)             \* layers numbered by their ranks: exactly the ranks
                            /\ SameOrder(e.back_id, e.kap)           \* any strictly increasing numbering preserves the order
                            /\ SameOrder(e.back_inc, e.kap)

(* IF/ELSE, not a disjunction: inside an action TLC explores both disjuncts *)
Rej(ok, x, o) == IF ok THEN TRUE ELSE PrintT(ToJson([reject |-> l, exp |-> x, obs |-> o]))

Check(e) ==
    CASE e.ev = "infer"     -> Rej(InferOK(e), InferExp(e), InferObs(e))
      [] e.ev = "partition" -> Rej(PartExp(e).ok = PartObs(e).ok /\ SeqEq(PartExp(e).layers, PartObs(e).layers), PartExp(e), PartObs(e))
      [] e.ev = "diag"      -> Rej(DiagExp(e) = e.flags, DiagExp(e), e.flags)
      [] e.ev = "cnf"       -> Rej(CnfOK(e), CnfExp(e), [v |-> e.v, f |-> e.f, nf |-> e.nf])
      [] e.ev = "mcs"       -> Rej(McsOK(e), McsExp(e), e.result)
      [] e.ev \in {"frank", "accept", "marg", "cond", "tpo"} -> Rej(LawOK(e), LawExp(e), e.ev)
      [] e.ev = "cwit"      -> Rej(CWitOK(e), "c-representation refuting q", e.eta)
      [] OTHER -> Rej(FALSE, "known event kind", e.ev)

Init == l = 0 /\ st = 0
Pick == st = 0 /\ l' \in 1..N /\ st' = 1
Eval == st = 1 /\ Check(Log[l]) /\ st' = 2 /\ UNCHANGED l
Next == Pick \/ Eval
Spec == Init /\ [][Next]_vars
=============================================================================
