"""Writes /verif/MANIFEST.json from the table below (one source of truth for the registered checks)."""
import json
import os
import subprocess

VERIF = os.path.dirname(os.path.dirname(os.path.abspath(__file__)))

MC = "model_checking"
TECH_G = "TLA+ spec (InfOCFSem + as-coded recursions in InfOCFAlgo) model-checked by TLC against literature theorems and against each other; TLC-enumerated vectors and TLC-found distinguishing inputs replayed into the real code; recorded answers validated by TLC (Trace_Ops)"

CHECKS = {
    "C01": dict(
        text="TLC validates the p-entailment definition against its ranking-model characterisation on the 2-atom universe, enumerates every base of <=2 conditionals there with expected answers for all 81 queries (replayed into InferenceManager), and validates recorded answers for sampled bases over 2-4 atoms against the same definition.",
        note="Oracle = InfOCFSem.tla (checked against theorems by MC_SemTheorems). Exhaustive only inside the 2-atom/<=2-conditional universe; sampled beyond. The formula evaluator of harness/model.py (20 lines) is trusted for projecting formulas to semantic conditionals.",
        ref="6 C01-C05",
    ),
    "C02": dict(
        text="As C01 for System Z: TLC checks that the Z-ranking is a model and that SysZ equals acceptance by it, then every strongly consistent base of the 2-atom universe is replayed and sampled 2-4 atom bases are validated by TLC.",
        note="Same trusted base as C01.",
        ref="6 C01-C05",
    ),
    "C03": dict(
        text="As C01 for System W under both MaxSAT back-ends (rc2, z3): preferred-structure definition checked to be a strict partial order between Z and lex on the spec; exhaustive replay of the 2-atom universe and TLC-validated samples over 2-4 atoms, with multi-clause CNFs, Top/Bottom and incomparable falsification sets generated deliberately.",
        note="Same trusted base as C01.",
        ref="6 C01-C05",
    ),
    "C04": dict(
        text="As C03 for lexicographic inference under both back-ends.",
        note="Same trusted base as C01.",
        ref="6 C01-C05",
    ),
    "C05": dict(
        text="c-inference against the skeptical definition: TLC enumerates all impact vectors up to 2^(n-1)+1 per conditional, so a wrong True is refuted by a concrete c-representation; exhaustive replay of the strongly consistent 2-atom bases, TLC-validated samples with <=4 conditionals over 2-3 atoms including unfalsifiable conditionals.",
        note="Same trusted base as C01; completeness of the True side rests on the impact bound 2^(n-1) (Komo & Beierle 2020), stability of the bound is a TLC-checked theorem on the 2-atom universe.",
        ref="6 C01-C05",
    ),
    "C07": dict(
        text="Extended semantics of p/Z/W/lex under every back-end: TLC proves on the 2-atom universe that the extended p-entailment definition equals acceptance by all ranking models with infinite ranks and that extended = strict on strongly consistent bases; every weakly consistent base of that universe is replayed (must answer, never raise) and bases over 2-4 atoms, stratified into no-finite-layer / mixed / strong, are validated by TLC.",
        note="Same trusted base as C01.",
        ref="6 C07",
    ),
    "C06": dict(
        text="Consistency verdicts and tolerance partitions of both variants against Part(B) of the spec for every base of the 2-atom universe (all shapes, both modes), TLC-validated partitions and diagnostics flags for sampled bases with fact lists, and refusal (error, not answer) of every operator/back-end/mode exactly when the spec's PrepRefuse condition holds. The layer loop itself is a TLA+ state machine (TolLoop.tla) that TLC shows to compute Part(B) with the push/pop discipline and to fail without it. Thorough: every base of <=3 conditionals (95 283).",
        note="Same trusted base as C01; order inside a layer is not part of the meaning and is not compared.",
        ref="6 C06",
    ),
    "C08": dict(
        text="Relations monitor (Trace_Relations.tla): the inclusion chain p<=Z<=W<=lex (both modes) and p<=c<=W (strict) is checked by TLC row by row on answers the real operators gave for corpora, generated 8-40 atom bases and sampled small bases; the inclusions themselves are TLC-checked theorems of the spec.",
        note="A monitor: implications between the code's own answers, no oracle needed, hence no size bound; rows flagged timed out are skipped and counted.",
        ref="6 C08", tech="TLA+ Relations monitor validated by TLC over recorded answers of the real operators (trace validation); inclusions model-checked on the spec",
    ),
    "C09": dict(
        text="Postulate instances (DI, REF, SCL, LLE, RW, AND, OR, CM, CUT, consistency preservation, RM for Z and lex) are generated per base with premises the code itself answered True; TLC checks premises => conclusion on the recorded answers; the schemas are TLC-checked theorems of the spec for all propositions over 2 atoms.",
        note="Monitor over the code's own answers; vacuity guard: the check fails as machinery error if any postulate never fires with true premises. Bases of every consistency shape (incl. no finite layer in extended mode); antecedents also serve as consequents and OR is instantiated with antecedents under which everything asked was entailed.",
        ref="6 C09", tech="TLA+ Relations monitor validated by TLC over recorded answers (trace validation); postulates model-checked on the spec",
    ),
    "C11": dict(
        text="Equality of answers across every usable pmaxsat_solver value (z3, rc2, rc2-<engine>; engines smoke-tested in subprocesses) for System W, lex and c-inference in both modes, checked by TLC on recorded answers for corpora, generated and sampled bases.",
        note="Quick compares z3, rc2 and 4 seeded engines on the broad corpus and EVERY usable engine on the tie-heavy inputs (defaults-and-exceptions, TLC-found distinguishing inputs, specificity chains, duplicated conditionals); thorough all usable engines everywhere. Unusable engines (cms, ks, lgl, mpl) are listed in the evidence.",
        ref="6 C11", tech="TLA+ Relations monitor validated by TLC over recorded answers (trace validation)",
    ),
    "C12": dict(
        text="Every operator/back-end/mode answers 9-10 programmatic presentations of the same base and queries (keys 0-based/sparse/descending/random, order, atom renaming, signature reordering/extension, equivalence-preserving rewrites, re-presentation from the semantic vector) plus a key-focused stage rotating key 0 over every conditional of multi-layer bases; TLC requires equal answers (Relations monitor) and, up to 4 atoms, equality with the specification's answer (Trace_Ops).",
        note="The spec's answers are functions of the semantic conditionals by construction; the harness' formula evaluator is trusted to compute them.",
        ref="6 C12", tech="TLC trace validation of recorded answers against the TLA+ spec and the Relations monitor",
    ),
    "C10": dict(
        text="Formula level: TLC classifies every token string up to length 6 (quick) / 7 (thorough) over the nine formula tokens with a recognizer-with-meaning transcribed from the documented grammar; all of them are rendered (seeded whitespace/comments) and given to parse_formula, which must reject or return a formula with exactly that truth table. File level: recorded outcomes of parse_belief_base / parse_queries on generated files, query lists and all their single-token mutations are validated by TLC (Trace_Syntax): rejected, or signature, key order 1..n, consequent/antecedent truth tables, and a text representation that re-parses equivalently.",
        note="Trusted: the transcription of CKB.g4/CL_SYNTAX.md into InfOCFSyntax.tla; the harness' formula evaluator. Identifier/whitespace lexing is exercised only through the rendered separators.",
        ref="6 C10", tech="TLC enumeration of the token-string universe with a TLA+ recognizer (spec -> code replay) plus TLC trace validation of recorded parser calls",
    ),
    "C15": dict(
        text="(a) For every conditional over formula trees of depth <= 1 on {a,b,Top,Bottom} (exhaustive) and sampled deeper ones, the clause sets of belief_base_to_cnf/query_to_cnf are decided per total assignment by independent SAT calls and TLC compares them with the truth table it evaluates from the trees. (b) Every MCS enumeration call recorded while System W / lex / c-inference run (rc2 with several SAT engines, z3) and direct calls on synthetic hard/soft/ignore combinations are validated by TLC against the inclusion-minimal falsification sets, each exactly once, empty iff the hard part is unsatisfiable. The enumeration loop is a TLA+ state machine (McsEnum.tla) model-checked for all families over 3 keys and EVERY order in which models may arrive (so for every SAT engine), and the rc2 loop's recorded model sequence is validated step by step against it (Trace_McsEnum).",
        note="Trusted: PySAT minisat22 for the per-assignment SAT calls of the recorder; atoms located in the id pool by name. The exactness of enumerate-until-unsat + minimal filter is additionally proved by TLAPS for any family (spec/McsLemma.tla), re-checked on every run.",
        ref="6 C15", tech="TLC trace validation of recorded CNFs and MCS calls against TLA+ definitions (EvalTree, MinimalSets)",
    ),
    "C13": dict(
        text="Manager.tla models the call machine as the code structures it (CallStart, PrepSkip/Run/Refuse, Answer in submission order or Spawn + WorkerDone in any order, CallReturn/CallRaise); TLC checks all histories within small bounds and shows that the originally coded text-keyed plumbing variant violates RowsOwnKey. Histories (seeded, and TLC-simulated behaviours) are executed on real managers of every operator/back-end/mode under an external recorder and each recorded trace is validated by TLC against the machine: every event must be matched by the spec action with the logged fields bound, rows must equal the spec's table, no child process may be alive at return. The repository's own tests run under the same recorder (pytest plugin) and every manager they create is validated the same way.",
        note="Reference answer of a query = its answer alone on a fresh manager. Scenarios include queries over atoms outside the base and literal sweeps (all 36 conditionals between literals over 3 atoms in long sequential batches). Every returned row's descriptive columns must repeat the manager's configuration. RowsOwnKey is additionally proved by TLAPS as a consequence of an inductive invariant of Manager.tla for any queries, keys, batch sizes, completion orders and time-out placements (spec/ManagerProof.tla, 404 obligations), re-checked on every run. Worker completion orders are varied by delays, not enumerated on the real code (they are enumerated in the model).",
        ref="6 C13", tech="TLA+ state machine model-checked by TLC; TLC trace validation of recorded executions (IsEvent pattern); TLC-simulated behaviours replayed",
    ),
    "C14": dict(
        level="fault_enumeration",
        text="Budget.tla composes the Manager machine with budgets and a clock (documented arithmetic total/preprocessing/per-query, 0 = unlimited); TLC checks NoUnflaggedWrong, no fault-caused exception and no spurious flags for all budget triples, durations and expiry placements. On the real code a virtual clock replaces the deadline and timing clocks: after a dry run that counts them, EVERY observation point of each scenario is turned into an expiry (k-th clock read jumps past all deadlines) or a solver give-up (k-th z3 Optimize.check returns unknown), followed by an un-budgeted call on the same manager; preprocessing durations below, near and above the total budget (negative remaining budget); parallel runs in which a worker hangs beyond budget + 10 s and is terminated by the join (WorkerLost); all traces, including the durations handed to Deadline.from_duration, are validated by TLC against Budget.tla.",
        note="Solver time-outs are simulated by the `unknown` result (the only way the code observes them); every observation point is faulted in sequential evaluation; in parallel evaluation the forked workers inherit the patched clock/solver with their own counters and a seeded sweep of fault points is run there too (each worker expires / gives up at its own k-th point). Sticky preprocessing-timed-out flag in later calls is accepted as a named deviation (rows are flagged). NoUnflaggedWrong / NoFaultRaise are additionally proved by TLAPS from an inductive invariant of Budget.tla for any budgets, batch sizes and expiry placements (spec/BudgetProof.tla, 483 obligations), re-checked on every run.",
        ref="6 C14", tech="fault enumeration over all clock-observation and solver-check points with an interposed virtual clock; TLC trace validation against Budget.tla; TLC model checking of the budget design",
    ),
    "C16": dict(
        text="Ocf.tla models the ranking object's lazy cache (RankWorld lazy/forced, ComputeAll, Touch by formula_rank/acceptance, Save/SaveFail/Load); TLC checks all interleavings keep the cache exact. Life cycles of real System Z ranking objects (bases consistent for the mode, fact lists, extended in {None, False, True}, random operation orders, plus the System Z operator's answer to the same query) are recorded and validated by TLC: the object's ranks must be KZStar of the fact-augmented base from the semantic core, construction is refused exactly when the combination is inconsistent, acceptance equals the operator whenever the antecedent has a feasible model.",
        note="Same trusted base as C01 for the semantic core; bases over 2-3 atoms; the object's own partition accessors (layer sizes, extended flag, infinity layer) are validated against the tolerance partition of the augmented base (zview events). CacheExact/DiskExact are additionally proved inductive for any number of worlds, objects and files by TLAPS (spec/OcfProof.tla), re-checked on every run.",
        ref="6 C16", tech="TLA+ life-cycle machine model-checked by TLC; TLC trace validation of recorded object life cycles against the machine and the semantic core",
    ),
    "C18": dict(
        text="Laws of formula_rank, conditional_acceptance, marginalize, compute_conditionalization, ranks2tpo/tpo2ranks as TLA+ definitions (FRank, Accepts, Marg, CondOn, Tpo, SameOrder); every total ranking over 1-2 atoms with ranks 0..3 (exhaustive) and seeded, half asymmetric, rankings over 3-4 (6) atoms go through all operations on the real code and TLC compares every recorded result with the law; System Z and c-representation objects go through the same operations in life-cycle traces.",
        note="The harness evaluates formulas to world sets (its 20-line evaluator is trusted); the laws themselves are evaluated by TLC.",
        ref="6 C18", tech="TLC validation of recorded operation results against TLA+ definitions of the laws; exhaustive over small rankings",
    ),
    "C20": dict(
        text="Ocf.tla has an explicit disk: Save from every partial-computation state, SaveFail (unchanged objects), Load; TLC checks cache/disk exactness and that copies agree. Real objects of every kind are saved from partially computed states, with real failures (missing directory, unwritable path, unpicklable member), loaded in the same process and in a fresh interpreter, ranked further on original and copy; impacts and metadata round trips are recorded as equalities; every life cycle is validated by TLC against the machine.",
        note="Failure points are the two the property names (unwritable target, unserialisable member); a crash of the interpreter in the middle of pickle.dump is not produced. Impact vectors are values: lists handed to / returned by an object are mutated by the driver afterwards and the object must be unaffected. System Z copies must report the same partition. CacheExact/DiskExact are additionally proved inductive for any number of worlds, objects and files by TLAPS (spec/OcfProof.tla), re-checked on every run.",
        ref="6 C20", tech="TLA+ life-cycle machine with disk and SaveFail action model-checked by TLC; TLC trace validation of recorded save/load histories incl. injected failures",
    ),
    "C17": dict(
        text="c-representation ranking objects for strongly consistent bases (single-conditional and unfalsifiable conditionals included) are constructed on the real code; TLC checks on the recorded life cycle that the impacts are non-negative, form a c-representation, that no c-representation lies strictly below them (finite downward search = Pareto-minimality), that ranks equal the impact sums, that every base conditional and every query c-inference answers True is accepted; c_inference_pareto_front runs in a subprocess under a 60 s limit and TLC checks the returned vectors are exactly the Pareto-minimal c-representations up to the stated impact bound.",
        note="Completeness of the front is checked up to max(2^(n-1), largest returned)+1 per impact; everything else is exact. Bases over 2-3 atoms, <= 3 conditionals, stored under keys 1..n or (40 %) permuted / shifted / sparse / 0-based keys; impact vectors are read in ascending key order. A global z3 time-out of 120 s turns a constraint system z3 cannot finish into a refused construction.",
        ref="6 C17", tech="TLC trace validation of recorded object life cycles against TLA+ definitions (IsCRep, SmallerCReps, ParetoMin)",
    ),
    "C19": dict(
        text="Revision.tla: incremental compilation model (Add/Remove with per-world caches) and the meaning of revision parameters (Revised, RevOK, Admissible, SmallerMinus); TLC checks all add/remove sequences keep the caches exact and equal to a fresh model. On the real code add/remove histories on CRevisionModel are recorded with the caches after every step; to_compilation, compile_alt and compile_alt_fast are compared by TLC, as bags of triples per index, with the specification's Compilation; every c_revision call (all gamma modes, fixed maps, with/without the incremental model) is validated: never raises, parameters non-negative, fixed values respected, revised ranking accepts every conditional, gamma- Pareto-minimal when gamma+ is zero (finite search), None only if TLC finds no admissible parameters in the stated box.",
        note="'No parameters exist' is refuted only by a witness inside the box (gamma- <= max prior + 2^(n-1) + 1). Priors over 2-3 atoms, <= 3 live conditionals. One known finding (fixed_gamma_minus call site) is listed in known_findings.json.",
        ref="6 C19", tech="TLA+ machine model-checked by TLC; TLC trace validation of recorded add/remove/compile/c_revision histories against TLA+ definitions",
    ),
}

NOT_YET = {
}


def main():
    props = [json.loads(l) for l in open(os.path.join(VERIF, "properties.jsonl"))]
    try:
        commits = subprocess.run(["git", "-C", "/repo", "log", "--format=%h %s", "35ecb8f..HEAD"], capture_output=True, text=True).stdout.strip().splitlines()
    except Exception:
        commits = []
    hook_commits = [c for c in commits if not c.split(" ", 1)[1].startswith("fix:")]
    man = {
        "version": 1,
        "setup_cmd": "bin/setup",
        "hooks": {
            "guard": "INFOCF_VERIF",
            "enable": "no source hooks: checks import /repo's working tree and attach an external recorder (harness/tracer.py) from outside; INFOCF_VERIF=1 only switches that recorder on",
            "baseline_off_cmd": "bin/baseline_off",
            "source_commits": [c.split()[0] for c in hook_commits],
            "add_only": True,
        },
        "engines": [
            {"name": "tlc", "path": "/opt/veriftools/tla/tla2tools.jar", "serves_properties": sorted(CHECKS), "kind_free_text": "TLC 1.8 explicit-state model checker; specs in /verif/spec"},
            {"name": "tlapm", "path": "/opt/veriftools/tlapm", "serves_properties": ["C13", "C14", "C15", "C16", "C18", "C19", "C20"],
             "kind_free_text": "TLA+ proof system: unbounded companions (inductive invariants / lemmas) of the model-checked machines, spec/*Proof.tla and spec/*Lemma.tla; re-run by the named checks; the outcome is recorded in the evidence and never decides a check"},
        ],
        "checks": [],
        "not_applicable": [],
        "notes": "All checks: bin/check <id> --tier quick|thorough. Exit 2 = machinery failure (TLC crash, vacuous coverage). See DESIGN.md.",
    }
    for p in props:
        pid = p["id"]
        if pid in CHECKS:
            c = CHECKS[pid]
            man["checks"].append(
                {
                    "property_id": pid,
                    "quick_cmd": f"bin/check {pid} --tier quick",
                    "thorough_cmd": f"bin/check {pid} --tier thorough",
                    "evidence_file": f"evidence/{pid}.json",
                    "replay_cmd_template": f"bin/check {pid} --replay {{path}}",
                    "engine": "tlc",
                    "level_claimed": {"category": c.get("level", MC), "text": c["text"], "design_ref": c.get("ref", "6")},
                    "level_note": c["note"],
                    "technique": c.get("tech", TECH_G),
                }
            )
        else:
            man["not_applicable"].append({"property_id": pid, "reason": NOT_YET.get(pid, "check not built yet in this round (planned, see DESIGN.md section 6); not claimed")})
    with open(os.path.join(VERIF, "MANIFEST.json"), "w") as f:
        json.dump(man, f, indent=1)
    print("MANIFEST.json:", len(man["checks"]), "checks,", len(man["not_applicable"]), "not claimed")


if __name__ == "__main__":
    main()
