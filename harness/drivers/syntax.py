"""C10: the parser yields exactly the documented meaning, or rejects."""
from __future__ import annotations

import json
import os
import random
import tempfile

import model as M
import tlc
from common import BUILD, Check, machinery_failure
from drivers import infer

TOK = ["a", "b", "T", "F", "!", ",", ";", "(", ")"]
TEXT = {"a": "a", "b": "b", "c": "c", "kb": "kb", "T": "Top", "F": "Bottom", "!": "!", ",": ",", ";": ";", "(": "(", ")": ")",
        "|": "|", "{": "{", "}": "}", "sig": "signature", "cond": "conditionals", "nl": "\n"}
IDLIKE = {"a", "b", "c", "kb", "T", "F", "sig", "cond"}
SEPS = ["", "", " ", "  ", "\t", "/*c*/", " /* x, y */ "]


def render_tokens(tokens, rng, nlstyle="\n"):
    out = []
    prev = None
    for t in tokens:
        sep = rng.choice(SEPS)
        if prev in IDLIKE and t in IDLIKE and sep == "":
            sep = " "
        if prev is None and rng.random() < 0.7:
            sep = ""
        if t == "nl" and rng.random() < 0.15:
            sep += "// trailing comment"
        out.append(sep)
        out.append(nlstyle if t == "nl" else TEXT[t])
        prev = t
    return "".join(out)


def mask_of(node) -> int:
    f = M.from_pysmt(node)
    extra = M.atoms_of(f) - {"a", "b", "c", "kb"}
    if extra:
        return -2
    ms = M.models(f, ["a", "b", "c", "kb"])
    return sum(1 << (w - 1) for w in ms)


# ----------------------------------------------------------------------------- formula level (path G)
def _exec_formulas(args):
    rows, seed = args
    import impl  # noqa: F401  (sets sys.path)
    from parser.Wrappers import parse_formula

    rng = random.Random(seed)
    exts = [[]] + [[i] for i in range(1, 10)] + [[i, j] for i in range(1, 10) for j in range(1, 10)]
    bad, n, acc = [], 0, 0
    for row in rows:
        if "short" in row:
            strings = row["short"]
        else:
            strings = [row["p"] + e for e in exts]
        for ix, exp in zip(strings, row["r"]):
            toks = [TOK[i - 1] for i in ix]
            text = render_tokens(toks, rng)
            n += 1
            try:
                node = parse_formula(text)
                obs = mask_of(node)
            except BaseException as e:
                if isinstance(e, (KeyboardInterrupt, SystemExit)):
                    raise
                obs = -1
            if exp >= 0:
                acc += 1
            if obs != exp:
                bad.append({"tokens": toks, "text": text, "expected": exp, "observed": obs})
    return {"n": n, "accepted": acc, "bad": bad}


def formula_level(chk: Check, tier, rng):
    K = 4 if tier == "quick" else 5
    res = tlc.run("Gen_Syntax", tlc.cfg_text(constants={"K": K}), "C10_gen", timeout=3000)
    tlc.require_ok(res, "Gen_Syntax")
    chk.add_tlc("Gen_Syntax", res, f"every token string of length <= {K + 2} over the 9 formula tokens classified by the recognizer")
    rows = res.prints
    if len(rows) != 9 ** K + 1:
        machinery_failure(f"Gen_Syntax emitted {len(rows)} rows, expected {9 ** K + 1}")
    chunks = [rows[i:i + 40] for i in range(0, len(rows), 40)]
    results = infer.pool_map(_exec_formulas, [(c, rng.randrange(1 << 30)) for c in chunks], chunksize=2)
    n = sum(r["n"] for r in results)
    acc = sum(r["accepted"] for r in results)
    chk.add_eval(n)
    chk.cov["formula_strings"] = n
    chk.cov["formula_strings_accepted_by_spec"] = acc
    for r in results:
        for b in r["bad"]:
            kind = "accepts-malformed" if b["expected"] < 0 else ("rejects-wellformed" if b["observed"] == -1 else "wrong-meaning")
            chk.violation(f"formula|{' '.join(b['tokens'])}", f"parse_formula({b['text']!r}) [{kind}]: spec {_code(b['expected'])}, code {_code(b['observed'])}",
                          {"kind": "formula", **b})
    for row in rows:
        if "p" in row:
            for e, c in enumerate(row["r"]):
                if c >= 0:
                    chk.nontrivial(["f", row["p"], e])
        else:
            for s, c in zip(row["short"], row["r"]):
                if c >= 0:
                    chk.nontrivial(["f", s])
    chk.sample({"path": "G", "tokens": ["!", "a", ",", "b", ";", "T"], "text": "!a,b;Top", "expected_mask": "bitmask of the 16 worlds over (a, b, c, kb) satisfying ((!a) and b) or Top = 65535"})


def _code(c):
    return "reject" if c == -1 else ("atoms outside {a,b}" if c == -2 else f"truth-table mask {c}")


# ----------------------------------------------------------------------------- file level (path T)
def rand_formula_tokens(rng, d):
    r = rng.random()
    if d == 0 or r < 0.3:
        return [rng.choice(["a", "b", "a", "b", "T", "F"])]
    if r < 0.45:
        return ["!"] + rand_formula_tokens(rng, d - 1)
    if r < 0.6:
        return ["("] + rand_formula_tokens(rng, d - 1) + [")"]
    if r < 0.72:  # parenthesised group, operator, parenthesised group: the outer parentheses of the side do NOT match each other
        return ["("] + rand_formula_tokens(rng, d - 1) + [")"] + [rng.choice([",", ";"])] + ["("] + rand_formula_tokens(rng, d - 1) + [")"]
    op = rng.choice([",", ";"])
    return rand_formula_tokens(rng, d - 1) + [op] + rand_formula_tokens(rng, d - 1)


def base_tokens(rng):
    nl = lambda lo=1: ["nl"] * rng.choice([lo, lo, lo + 1])
    sig = rng.choice([["a"], ["a", "b"], ["b", "a"], ["a", "b", "c"], ["c", "a", "b"]])
    t = ["nl"] * rng.choice([0, 0, 1]) + ["sig"] + nl()
    for i, s in enumerate(sig):
        t += [s] + ([","] if i + 1 < len(sig) else [])
    t += ["nl"] + nl(0) + ["cond"] + nl() + ["kb"] + nl(0) + ["{"] + nl(0)
    n = rng.choice([0, 1, 1, 2, 2, 3])
    for i in range(n):
        t += ["("] + rand_formula_tokens(rng, 2) + ["|"] + rand_formula_tokens(rng, 2) + [")"]
        if i + 1 < n:
            t += [","] + nl(0)
        else:
            t += nl(0)
    t += ["}"] + nl(0)
    if rng.random() < 0.2:  # a second block: the parsed belief base is still the first one
        t += ["cond"] + nl() + [rng.choice(["kb", "a"])] + nl(0) + ["{"] + nl(0)
        if rng.random() < 0.6:
            t += ["("] + rand_formula_tokens(rng, 1) + ["|"] + rand_formula_tokens(rng, 1) + [")"] + nl(0)
        t += ["}"] + nl(0)
    return t


def query_tokens(rng):
    n = rng.choice([1, 1, 2, 3])
    t = []
    for i in range(n):
        t += ["("] + rand_formula_tokens(rng, 2) + ["|"] + rand_formula_tokens(rng, 2) + [")"]
        if i + 1 < n:
            t += [","] + ["nl"] * rng.choice([0, 1])
    return t + ["nl"] * rng.choice([0, 0, 1])


ALL_FILE_TOK = ["a", "b", "c", "kb", "T", "F", "!", ",", ";", "(", ")", "|", "{", "}", "sig", "cond", "nl"]


def mutations(tokens, rng, limit=None):
    out = []
    for i in range(len(tokens)):
        out.append(tokens[:i] + tokens[i + 1:])  # delete
        out.append(tokens[:i] + [rng.choice(ALL_FILE_TOK)] + tokens[i:])  # insert
        r = rng.choice([x for x in ALL_FILE_TOK if x != tokens[i]])
        out.append(tokens[:i] + [r] + tokens[i + 1:])  # replace
    out.append(tokens + [rng.choice(ALL_FILE_TOK)])  # trailing token
    out.append(tokens + [rng.choice(["a", "(", "}", "kb", ","])])
    if limit and len(out) > limit:
        out = rng.sample(out, limit)
    return out


def _exec_files(args):
    items, seed = args
    import impl  # noqa: F401
    from parser.Wrappers import parse_belief_base, parse_belief_base_from_str, parse_queries, parse_queries_from_str, parseCKB

    os.makedirs(os.path.join(BUILD, "in"), exist_ok=True)
    rng = random.Random(seed)
    out = []
    for kind, toks in items:
        text = render_tokens(toks, rng, nlstyle=rng.choice(["\n", "\n", "\r\n"]))
        rec = {"kind": kind, "tokens": toks, "text": text, "ok": False, "sig": [], "conds": [], "note": None}
        try:
            # "fileq": a complete belief-base text handed to parse_queries (it then yields that base's conditionals)
            # every public entry point must give the documented meaning: text or path, the *_from_str variants, parseCKB
            via = rng.choice(["text", "text", "path", "from_str", "core"])
            rec["via"] = via
            arg = text
            if via == "path":
                fd, arg = tempfile.mkstemp(prefix="c10_", suffix=".cl" if kind == "file" else ".clq", dir=os.path.join(BUILD, "in"))
                with os.fdopen(fd, "w", newline="") as fh:
                    fh.write(text)
            try:
                if kind == "file":
                    obj = {"text": parse_belief_base, "path": parse_belief_base, "from_str": parse_belief_base_from_str, "core": parseCKB}[via](arg)
                else:
                    obj = {"text": parse_queries, "path": parse_queries, "from_str": parse_queries_from_str, "core": parse_queries_from_str}[via](arg)
            finally:
                if via == "path":
                    os.unlink(arg)
            conds = obj.conditionals
            rec["ok"] = True
            rec["sig"] = [("T" if s == "Top" else "F" if s == "Bottom" else s) for s in obj.signature] if kind in ("file", "fileq") else []
            rec["conds"] = [[mask_of(c.consequence), mask_of(c.antecedence)] for c in conds.values()]
            if list(conds.keys()) != list(range(1, len(conds) + 1)):
                rec["note"] = f"keys {list(conds.keys())} are not 1..n in file order"
            # the text representation must re-parse to an equivalent conditional
            for c in conds.values():
                try:
                    rq = parse_queries(str(c))
                    rc = list(rq.conditionals.values())
                    same = len(rc) == 1 and [mask_of(rc[0].consequence), mask_of(rc[0].antecedence)] == [mask_of(c.consequence), mask_of(c.antecedence)]
                except BaseException as e2:
                    if isinstance(e2, (KeyboardInterrupt, SystemExit)):
                        raise
                    same = False
                if not same:
                    rec["note"] = f"text representation {str(c)!r} does not re-parse to an equivalent conditional"
        except BaseException as e:
            if isinstance(e, (KeyboardInterrupt, SystemExit)):
                raise
            rec["exc"] = type(e).__name__ + ": " + str(e)[:120]
        out.append(rec)
    return out


def file_level(chk: Check, tier, rng):
    n_files = 50 if tier == "quick" else 500
    per = 60 if tier == "quick" else None
    items = []
    for _ in range(n_files):
        t = base_tokens(rng)
        items.append(("file", t))
        items.append(("fileq", t))
        items += [("file", m) for m in mutations(t, rng, per)]
        items += [("fileq", m) for m in mutations(t, rng, 6)]
        q = query_tokens(rng)
        items.append(("queries", q))
        items += [("queries", m) for m in mutations(q, rng, per // 2 if per else None) if m]
    chunks = [items[i:i + 50] for i in range(0, len(items), 50)]
    results = infer.pool_map(_exec_files, [(c, rng.randrange(1 << 30)) for c in chunks], chunksize=2)
    recs = [r for rs in results for r in rs]
    events = [{"ev": "file" if r["kind"] == "fileq" else r["kind"], "tokens": r["tokens"], "ok": r["ok"], "sig": r["sig"], "conds": r["conds"]} for r in recs]
    os.makedirs(os.path.join(BUILD, "in"), exist_ok=True)
    tf = os.path.join(BUILD, "in", "C10_files.json")
    with open(tf, "w") as f:
        json.dump(events, f)
    res = tlc.run("Trace_Syntax", tlc.cfg_text(), "C10_files", env={"TRACE_FILE": tf}, timeout=1800)
    tlc.require_ok(res, "Trace_Syntax")
    if res.distinct != 1 + 2 * len(events):
        machinery_failure(f"Trace_Syntax consumed {res.distinct} states, expected {1 + 2 * len(events)}")
    chk.add_tlc("Trace_Syntax", res, f"{len(events)} parser calls (well-formed files/query lists and all single-token mutations) validated")
    chk.add_traces(len(events))
    chk.add_eval(len(events))
    accepted = 0
    for r in recs:
        if r["ok"]:
            accepted += 1
            chk.nontrivial(["file", r["tokens"]])
        if r["note"]:
            chk.violation(f"{r['kind']}|{' '.join(r['tokens'])}|note", f"{r['kind']} {r['text']!r}: {r['note']}", {"kind": r["kind"], **r})
    for rj in [p for p in res.prints if "reject" in p]:
        r = recs[rj["reject"] - 1]
        kind = "accepts-malformed" if (r["ok"] and not rj["exp"]["ok"]) else ("rejects-wellformed" if (not r["ok"] and rj["exp"]["ok"]) else "wrong-meaning")
        chk.violation(f"{r['kind']}|{' '.join(r['tokens'])}", f"{r['kind']} text {r['text']!r} [{kind}]: spec {rj['exp']}, code ok={r['ok']} sig={r['sig']} conds={r['conds']} {r.get('exc', '')}",
                      {"kind": r["kind"], "record": r, "expected": rj["exp"]})
    chk.cov["file_level_inputs"] = len(recs)
    chk.cov["file_level_accepted_by_code"] = accepted
    wf = next((r for r in recs if r["ok"] and r["kind"] == "file" and r["conds"]), None)
    if wf:
        chk.sample({"path": "T", "tokens": wf["tokens"], "text": wf["text"], "signature": wf["sig"], "conditionals_as_truth_table_masks": wf["conds"]})


def run(chk: Check, tier: str):
    rng = random.Random(chk.seed)
    formula_level(chk, tier, rng)
    file_level(chk, tier, rng)
    chk.cov["exhaustive"] = True
    chk.cov["rule"] = (
        "formula level (path G): TLC classifies every token string of length <= " + ("6" if tier == "quick" else "7") + " over {a, b, Top, Bottom, !, ',', ';', (, )} "
        "(accept + truth table, or reject) with the recognizer-with-meaning of InfOCFSyntax.tla; each is rendered with seeded separators/comments and given to parse_formula, "
        "whose result is evaluated by substitution over all assignments. file level (path T): generated well-formed belief-base files and query lists (0-3 conditionals, formula depth <= 2, "
        "blank lines, comments, CRLF) and their single-token mutations (delete/insert/replace at every position, trailing tokens) are parsed through a seeded public entry point (parse_belief_base / parse_queries with the text or with the path of a file holding it, parse_belief_base_from_str, parse_queries_from_str, parseCKB) and the "
        "recorded outcome (rejected, or signature + key order + truth tables of consequent/antecedent + re-parse of the text representation) is validated by TLC (Trace_Syntax). "
        "Non-trivial = inputs the specification accepts (their meaning is compared), distinct by token string."
    )
    chk.assumptions += ["the documented grammar (docs/CL_SYNTAX.md + CKB.g4) as transcribed in InfOCFSyntax.tla", "lexer details (identifier characters, comment forms) are exercised only through the rendered separators"]
    return chk.finish()
