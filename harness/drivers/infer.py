"""Drivers for the answer-level properties (C01-C05, C07): spec verification, exhaustive small-universe
replay (path G) and sampled larger universes validated by TLC (path T)."""
from __future__ import annotations

import json
import os
import random
from concurrent.futures import ProcessPoolExecutor

import model as M
import pysem
import tlc
from common import BUILD, Check, machinery_failure, ncpu

SIG = ["a", "b", "c", "d", "e"]


# ----------------------------------------------------------------------------- spec verification
def verify_theorems(chk: Check, thms, tier: str, rng: random.Random, maxb_quick=1, sample2=250, cu=3):
    """Model-check the semantic core against the theorems named in `thms` (validates the oracle)."""
    thms = set(thms)
    if tier == "thorough":
        cfg = tlc.cfg_text(invariants=["TheoremsHold"], constants={"NW": 4, "MaxB": 2, "FromFile": False, "Thms": thms, "CU": cu})
        res = tlc.run("MC_SemTheorems", cfg, f"{chk.prop}_thm", timeout=3000)
        note = "all bases of <=2 conditionals over 2 atoms x all 81 queries"
    else:
        # all single-conditional bases + a seeded sample of two-conditional bases
        bases = [[i] for i in range(81)]
        for _ in range(sample2):
            i, j = sorted((rng.randrange(81), rng.randrange(81)))
            bases.append([i, j])
        os.makedirs(os.path.join(BUILD, "in"), exist_ok=True)
        bf = os.path.join(BUILD, "in", f"{chk.prop}_bases.json")
        with open(bf, "w") as f:
            json.dump(bases, f)
        cfg = tlc.cfg_text(invariants=["TheoremsHold"], constants={"NW": 4, "MaxB": 2, "FromFile": True, "Thms": thms, "CU": cu})
        res = tlc.run("MC_SemTheorems", cfg, f"{chk.prop}_thm", env={"BASES_FILE": bf}, timeout=900)
        note = f"81 single-conditional bases + {sample2} sampled two-conditional bases over 2 atoms x all 81 queries"
    if res.violated:
        machinery_failure(f"specification theorem violated ({res.violated}); the oracle is not trustworthy:\n{res.out[-2500:]}")
    tlc.require_ok(res, "MC_SemTheorems")
    chk.add_tlc("MC_SemTheorems:" + ",".join(sorted(thms)), res, note)
    return res


# ----------------------------------------------------------------------------- case generation
def _rand_vec(nw, rng, p0=0.45, p1=0.3):
    out = []
    for _ in range(nw):
        r = rng.random()
        out.append(0 if r < p0 else (1 if r < p0 + p1 else 2))
    return out


def _shape_formula(sig, rng, allow_const=True):
    k = rng.randrange(10)
    lit = lambda: (M.V(rng.choice(sig)) if rng.random() < 0.6 else M.Not(M.V(rng.choice(sig))))
    if k < 4:
        return lit()
    if k < 6:
        return M.And(lit(), lit())
    if k < 8:
        return M.Or(lit(), lit())
    if k == 8 and allow_const:
        return M.TOP
    return M.random_formula(sig, 2, rng)


def gen_cond(sig, rng):
    """A conditional as (vec, B, A): half from random semantic vectors (presented in a seeded style), half shaped."""
    nw = 1 << len(sig)
    if rng.random() < 0.45:
        vec = _rand_vec(nw, rng)
        B, A = M.present(vec, sig, rng)
    else:
        A = _shape_formula(sig, rng)
        B = _shape_formula(sig, rng, allow_const=False)
        if rng.random() < 0.04:
            B = M.BOT
        vec = M.cond_vec(B, A, sig)
    return {"vec": vec, "B": B, "A": A}


def gen_case(rng, atoms, nconds, nq, shapes, tries=400, min_layers=0):
    """A base whose pysem.shape is in `shapes` (and with >= min_layers finite layers), plus nq queries
    (random, shaped, the base's own, negations)."""
    sig = SIG[:atoms]
    for _ in range(tries):
        base = [gen_cond(sig, rng) for _ in range(nconds)]
        bv = [c["vec"] for c in base]
        if pysem.shape(bv) in shapes and len(pysem.part(bv)[0]) >= min_layers:
            break
    else:
        return None
    # a quarter of the smaller bases state one conditional twice (same formulas, its own key): the base is a multiset,
    # a duplicate stays in its layer and counts separately wherever falsified conditionals are counted or summed
    if len(base) <= 3:
        import zlib

        h = zlib.crc32(repr(bv).encode())
        if h % 4 == 0:
            d = base[(h >> 4) % len(base)]
            base.insert((h >> 8) % (len(base) + 1), {"vec": list(d["vec"]), "B": d["B"], "A": d["A"]})
    qs, seen = [], set()
    cands = [gen_cond(sig, rng) for _ in range(nq * 2)]
    for c in base:  # direct-inference style and flipped queries
        cands.append({"vec": c["vec"], "B": c["B"], "A": c["A"]})
        cands.append({"vec": M.cond_vec(M.Not(c["B"]), c["A"], sig), "B": M.Not(c["B"]), "A": c["A"]})
    rng.shuffle(cands)
    for c in cands:
        t = M.render_cond(c["B"], c["A"])
        if t in seen:
            continue
        seen.add(t)
        qs.append(c)
        if len(qs) >= nq:
            break
    return {"sig": sig, "base": base, "qs": qs, "via": "parser" if rng.random() < 0.3 else "api"}


# ----------------------------------------------------------------------------- execution in worker processes
def _exec_case(args):
    case, configs = args
    import impl

    out = []
    conds = [(c["B"], c["A"]) for c in case["base"]]
    qconds = [(c["B"], c["A"]) for c in case["qs"]]
    for (s, be, weakly) in configs:
        try:
            bb = impl.build_base(case["sig"], conds, via=case["via"], keys=key_layout(case))
            qs = impl.build_queries(qconds, via=case["via"])
            r = impl.ask(bb, qs, s, be, weakly)
        except BaseException as e:  # construction through the parser failed
            if isinstance(e, (KeyboardInterrupt, SystemExit)):
                raise
            r = {"raised": True, "exc": "construct:" + type(e).__name__ + ": " + str(e)[:200], "obs": [], "rows": []}
        out.append({"sys": s, "backend": be, "weakly": weakly, "raised": r["raised"], "exc": r["exc"], "obs": r["obs"]})
    return out


def key_layout(case):
    """Keys under which the conditionals of an API-built base are stored: a layout fixed by the case's content (so a replay
    reproduces it). Parser-built bases are numbered 1..n by the parser. Layouts: 1..n, 0..n-1, an offset, sparse layouts that
    contain n+1 / leave gaps, descending -- the answer must not depend on it."""
    if case.get("via") != "api":
        return None
    if case.get("keys"):
        return case["keys"]
    import zlib

    n = len(case["base"])
    h = zlib.crc32(repr([(c["vec"] if isinstance(c, dict) else M.render_cond(*c)) for c in case["base"]]).encode())
    layouts = [
        list(range(1, n + 1)), list(range(1, n + 1)), list(range(0, n)), list(range(2, n + 2)),
        [k for k in range(1, n + 2) if k != max(1, n - 1)],          # a gap, contains n+1
        list(range(n, 0, -1)), [3 * k + 2 for k in range(n)], list(range(n + 1, 2 * n + 1)),
    ]
    return layouts[h % len(layouts)]


CRASHED = {"__interpreter_crashed__": True}
crash_log = []  # (function name, short description of the task) of tasks whose worker process died abruptly


def pool_map(fn, tasks, chunksize=4):
    """Parallel map over worker processes. If a worker process dies abruptly (an abort/segfault inside a native solver),
    every task is re-run in isolation (one single-use process each, 16 at a time); a task that kills its process again
    yields CRASHED and is listed in crash_log. Drivers skip CRASHED results and report them in the evidence."""
    from concurrent.futures import ThreadPoolExecutor
    from concurrent.futures.process import BrokenProcessPool

    tasks = list(tasks)
    try:
        with ProcessPoolExecutor(max_workers=ncpu()) as ex:
            return list(ex.map(fn, tasks, chunksize=chunksize))
    except BrokenProcessPool:
        pass

    def isolated(task):
        try:
            with ProcessPoolExecutor(max_workers=1) as ex1:
                return ex1.submit(fn, task).result()
        except BrokenProcessPool:
            crash_log.append((getattr(fn, "__name__", str(fn)), repr(task)[:600]))
            try:  # keep the full task for reproduction
                import pickle

                os.makedirs(BUILD, exist_ok=True)
                with open(os.path.join(BUILD, f"crashed_task_{len(crash_log)}.pkl"), "wb") as f:
                    pickle.dump((getattr(fn, "__module__", ""), getattr(fn, "__name__", ""), task), f)
            except Exception:
                pass
            return CRASHED

    with ThreadPoolExecutor(max_workers=ncpu()) as tex:
        out = list(tex.map(isolated, tasks))
    if crash_log:
        raise InterpreterCrash(list(crash_log))
    return out


class InterpreterCrash(Exception):
    """A task killed its (isolated) worker process; args[0] lists (function, task) pairs."""


def configs_for(systems, modes, backends=None):
    """(system, backend, weakly) triples; c-inference exists in strict mode only."""
    import impl

    out = []
    for s in systems:
        for be in (backends or impl.BACKENDS)[s]:
            for m in modes:
                if s == "c" and m:
                    continue
                out.append((s, be, m))
    return out


def vecs(conds):
    return [c["vec"] for c in conds]


def fingerprint(s, be, weakly, base_vecs, qvec):
    b = sorted("".join(map(str, v)) for v in base_vecs)
    return f"{s}/{be or '-'}/{'ext' if weakly else 'strict'}|base={','.join(b)}|q={''.join(map(str, qvec)) if qvec is not None else '*'}"


def case_texts(case):
    return {
        "signature": case["sig"],
        "base": [M.render_cond(c["B"], c["A"]) for c in case["base"]],
        "queries": [M.render_cond(c["B"], c["A"]) for c in case["qs"]],
        "base_vecs": vecs(case["base"]),
        "query_vecs": vecs(case["qs"]),
        "via": case["via"],
        "keys": key_layout(case),
    }


# ----------------------------------------------------------------------------- path T: sampled cases validated by TLC
def cu_for(n):
    return (1 << max(0, n - 1)) + 1


def run_sampled(chk: Check, cases, configs, tag="sampled", nontrivial=None):
    """Run the real code on every (case, config), write one 'infer' event each, let TLC decide."""
    cases = [c for c in cases if c]
    results = pool_map(_exec_case, [(c, configs) for c in cases])
    events, index = [], []
    for ci, (case, res) in enumerate(zip(cases, results)):
        for r in res:
            n = len(case["base"])
            ev = {
                "ev": "infer", "nw": 1 << len(case["sig"]), "sys": r["sys"], "weakly": r["weakly"],
                "base": vecs(case["base"]), "qs": vecs(case["qs"]), "raised": r["raised"], "obs": r["obs"],
                "cu": cu_for(n) if r["sys"] == "c" else 0, "cusafe": cu_for(n) if r["sys"] == "c" else 0,
            }
            events.append(ev)
            index.append((ci, r))
    rejects = validate_events(chk, events, tag)
    nq = 0
    for (ci, r) in index:
        nq += len(cases[ci]["qs"])
    chk.add_eval(nq)
    for case in cases:
        bv = vecs(case["base"])
        for q in case["qs"]:
            fl = pysem.interesting(bv, q["vec"])
            if (nontrivial or (lambda f: f["nonvacuous"]))(fl):
                chk.nontrivial(["s", bv, q["vec"]])
    for rj in rejects:
        ci, r = index[rj["reject"] - 1]
        case = cases[ci]
        exp, obs = rj["exp"], rj["obs"]
        bad_q = None
        if not exp.get("raised") and not obs.get("raised") and len(exp["obs"]) == len(obs["obs"]):
            for i, (x, o) in enumerate(zip(exp["obs"], obs["obs"])):
                if x != o:
                    bad_q = i
                    break
        qv = case["qs"][bad_q]["vec"] if bad_q is not None else None
        fp = fingerprint(r["sys"], r["backend"], r["weakly"], vecs(case["base"]), qv)
        summ = (
            f"{r['sys']}/{r['backend'] or '-'} weakly={r['weakly']}: spec requires {_short(exp)}, code gave {_short(obs)}"
            + (f" (exception {r['exc']})" if r["exc"] else "")
            + (f"; first differing query #{bad_q}: {M.render_cond(case['qs'][bad_q]['B'], case['qs'][bad_q]['A'])}" if bad_q is not None else "")
        )
        chk.violation(fp, summ, {"kind": "infer", "config": [r["sys"], r["backend"], r["weakly"]], "case": case_texts(case),
                                  "expected": exp, "observed": obs, "exception": r["exc"], "query_index": bad_q,
                                  "trees": {"base": [[c["B"], c["A"]] for c in case["base"]], "qs": [[c["B"], c["A"]] for c in case["qs"]]}})
    if cases:
        c0 = cases[0]
        chk.sample({"path": "T", "signature": c0["sig"], "base": case_texts(c0)["base"], "queries": case_texts(c0)["queries"][:4],
                    "configs": [list(c) for c in configs][:4]})
    return rejects


def _short(x):
    if x.get("raised"):
        return "refusal (error)"
    return "".join(x["obs"])


def validate_events(chk: Check, events, tag, parts=None):
    """Write events to a trace file, run Trace_Ops, return the list of reject records (1-based event numbers)."""
    # the c-inference oracle enumerates (2^(n-1)+2)^n impact vectors: affordable up to 4 conditionals only
    keep = [i for i, e in enumerate(events) if not (e.get("ev") == "infer" and e.get("sys") == "c" and len(e["base"]) > 4)]
    if len(keep) != len(events):
        chk.cov["c_oracle_skipped_large_bases"] = chk.cov.get("c_oracle_skipped_large_bases", 0) + len(events) - len(keep)
        rej = validate_events(chk, [events[i] for i in keep], tag)
        for r in rej:
            r["reject"] = keep[r["reject"] - 1] + 1
        return rej
    if not events:
        return []
    os.makedirs(os.path.join(BUILD, "in"), exist_ok=True)
    tf = os.path.join(BUILD, "in", f"{chk.prop}_{tag}.json")
    with open(tf, "w") as f:
        json.dump(events, f)
    cfg = tlc.cfg_text()
    res = tlc.run("Trace_Ops", cfg, f"{chk.prop}_{tag}", env={"TRACE_FILE": tf}, timeout=1500)
    tlc.require_ok(res, "Trace_Ops")
    if res.distinct != 1 + 2 * len(events):
        machinery_failure(f"Trace_Ops consumed {res.distinct} states, expected {1 + 2 * len(events)}: not every event was validated\n{res.out[-1500:]}")
    chk.add_tlc(f"Trace_Ops:{tag}", res, f"{len(events)} recorded events validated")
    chk.add_traces(len(events))
    chk.cov.setdefault("inconclusive", 0)
    chk.cov["inconclusive"] += len([p for p in res.prints if "inconclusive" in p])
    return [p for p in res.prints if "reject" in p]


# ----------------------------------------------------------------------------- path G: exhaustive small universe
def gen_vectors(chk: Check, maxb=2, with_c=True, cu=3, with_ans=True):
    cfg = tlc.cfg_text(constants={"NW": 4, "MaxB": maxb, "CU": cu, "WithC": with_c, "WithAns": with_ans})
    res = tlc.run("Gen_Ops", cfg, f"{chk.prop}_gen", timeout=1800)
    tlc.require_ok(res, "Gen_Ops")
    chk.add_tlc("Gen_Ops", res, f"every base of <= {maxb} conditionals over 2 atoms, expected answers for all 81 queries")
    return res.prints


def _exec_exh(args):
    """Replay one exhaustive-universe base: returns list of (config, raised, exc, obs) for the given query numbers."""
    row, qnums, configs, seed, via = args
    import impl

    rng = random.Random(seed)
    sig = ["a", "b"]
    plain = "dnf" if seed % 2 else None  # every second base in plain DNF: no noise atoms that would hide structure-dependent defects
    conds = [M.present(M.cond_from_index(i, 4), sig, rng, plain) for i in row["b"]]
    qs, seen, used = [], set(), []
    for qi in qnums:
        for _ in range(6):
            B, A = M.present(M.cond_from_index(qi, 4), sig, rng, plain if _ == 0 else None)
            t = M.render_cond(B, A)
            if t not in seen:
                seen.add(t)
                qs.append((B, A))
                used.append(qi)
                break
    out = []
    for (s, be, weakly) in configs:
        try:
            bb = impl.build_base(sig, conds, via=via)
            q = impl.build_queries(qs, via=via)
            r = impl.ask(bb, q, s, be, weakly)
        except BaseException as e:
            if isinstance(e, (KeyboardInterrupt, SystemExit)):
                raise
            r = {"raised": True, "exc": "construct:" + type(e).__name__ + ": " + str(e)[:200], "obs": []}
        out.append({"sys": s, "backend": be, "weakly": weakly, "raised": r["raised"], "exc": r["exc"], "obs": r["obs"]})
    return {"used": used, "texts": {"base": [M.render_cond(*c) for c in conds], "queries": [M.render_cond(*c) for c in qs]}, "res": out}


def run_exhaustive(chk: Check, rows, configs, rng, qfrac=1.0, only=lambda row, weakly: True):
    """Replay every TLC-emitted base (filtered per mode by `only`) with a seeded fraction of the 81 queries."""
    tasks, meta = [], []
    for row in rows:
        cf = [c for c in configs if only(row, c[2])]
        if not cf:
            continue
        qnums = list(range(81)) if qfrac >= 1 else sorted(rng.sample(range(81), max(1, int(81 * qfrac))))
        tasks.append((row, qnums, cf, rng.randrange(1 << 30), "parser" if rng.random() < 0.25 else "api"))
        meta.append((row, cf))
    results = pool_map(_exec_exh, tasks, chunksize=8)
    nrows = 0
    for (row, cf), out in zip(meta, results):
        bvecs = [M.cond_from_index(i, 4) for i in row["b"]]
        for r in out["res"]:
            key = r["sys"] + ("1" if r["weakly"] else "0")
            expected = row[key]
            nrows += len(out["used"])
            if r["raised"]:
                fp = fingerprint(r["sys"], r["backend"], r["weakly"], bvecs, None)
                chk.violation(fp, f"{r['sys']}/{r['backend'] or '-'} weakly={r['weakly']}: code raised {r['exc']} on base {out['texts']['base']} which is consistent for the mode",
                              {"kind": "infer-exhaustive", "config": [r["sys"], r["backend"], r["weakly"]], "base_numbers": row["b"], "case": out["texts"], "signature": ["a", "b"], "exception": r["exc"]})
                continue
            if len(r["obs"]) != len(out["used"]):
                fp = fingerprint(r["sys"], r["backend"], r["weakly"], bvecs, None) + "|rows"
                chk.violation(fp, f"{len(r['obs'])} rows for {len(out['used'])} queries", {"kind": "infer-exhaustive", "case": out["texts"], "config": [r["sys"], r["backend"], r["weakly"]]})
                continue
            for pos, qi in enumerate(out["used"]):
                exp = expected[qi]
                if r["obs"][pos] != exp:
                    qv = M.cond_from_index(qi, 4)
                    fp = fingerprint(r["sys"], r["backend"], r["weakly"], bvecs, qv)
                    chk.violation(fp, f"{r['sys']}/{r['backend'] or '-'} weakly={r['weakly']}: base {out['texts']['base']} query {out['texts']['queries'][pos]}: spec {exp}, code {r['obs'][pos]}",
                                  {"kind": "infer-exhaustive", "config": [r["sys"], r["backend"], r["weakly"]], "signature": ["a", "b"], "base_numbers": row["b"], "query_number": qi,
                                   "case": {"base": out["texts"]["base"], "query": out["texts"]["queries"][pos]}, "expected": exp, "observed": r["obs"][pos]})
                fl = pysem.interesting(bvecs, M.cond_from_index(qi, 4))
                if fl["nonvacuous"]:
                    chk.nontrivial(["x", row["b"], qi])
    chk.add_eval(nrows)
    chk.add_traces(len(tasks))
    if tasks:
        row = tasks[len(tasks) // 2][0]
        chk.sample({"path": "G", "base_numbers": row["b"], "base_vecs": [M.cond_from_index(i, 4) for i in row["b"]], "expected_p_strict": row["p0"][:27] + "...", "fin": row["fin"], "inf": row["inf"]})
    return nrows


# ----------------------------------------------------------------------------- distinguishing inputs (DESIGN 5.3-2)
def distinguishing_cases(rng, variant="lexAllPairs"):
    """Cases built from the TLC-found inputs on which a named wrong variant differs from the definition."""
    import os

    from common import VERIF

    with open(os.path.join(VERIF, "spec", "distinguishing.json")) as f:
        d = json.load(f)
    cases = []
    for e in d.get(variant, []):
        sig = SIG[: {4: 2, 8: 3, 16: 4, 32: 5}[e["nw"]]]
        base = []
        for i in e["b"]:
            vec = M.cond_from_index(i, e["nw"])
            B, A = M.present(vec, sig, rng)
            base.append({"vec": vec, "B": B, "A": A})
        qv = M.cond_from_index(e["q"], e["nw"])
        B, A = M.present(qv, sig, rng)
        qs = [{"vec": qv, "B": B, "A": A}]
        seen = {M.render_cond(B, A)}
        for _ in range(5):
            c = gen_cond(sig, rng)
            t = M.render_cond(c["B"], c["A"])
            if t not in seen:
                seen.add(t)
                qs.append(c)
        cases.append({"sig": sig, "base": base, "qs": qs, "via": "api"})
    return cases


def gen_case_defaults(rng, nq=10):
    """'Defaults and exceptions' bases over 4 atoms with queries whose antecedent joins the falsifying worlds of two
    exceptions: the shape on which a layer has several tied falsification sets (found with MC_AlgoRefines/wAnyTie)."""
    sig = SIG[:4]
    lit = lambda: (M.V(rng.choice(sig)) if rng.random() < 0.5 else M.Not(M.V(rng.choice(sig))))
    for _ in range(200):
        defaults = [(lit(), M.TOP) for _ in range(rng.choice([2, 3, 3]))]
        exc = [(lit(), lit()) for _ in range(rng.choice([2, 2, 3]))]
        conds = defaults + exc
        bv = [M.cond_vec(B, A, sig) for B, A in conds]
        fin, inf = pysem.part(bv)
        if not inf and len(fin) >= 2:
            break
    else:
        return None
    qs, seen = [], set()
    for _ in range(nq * 3):
        e1, e2 = rng.sample(exc, 2)
        A = M.Or(M.And(e1[1], M.Not(e1[0])), M.And(e2[1], M.Not(e2[0])))
        dd = rng.choice(defaults)[0]
        x = rng.choice([e1, e2])[0]
        B = rng.choice([M.Or(M.And(dd, x), M.And(M.Not(dd), M.Not(x))), M.random_formula(sig, 2, rng, 0.0), M.Or(M.And(dd, M.Not(x)), M.And(M.Not(dd), x)), dd, M.Not(dd)])
        t = M.render_cond(B, A)
        if t not in seen:
            seen.add(t)
            qs.append({"vec": M.cond_vec(B, A, sig), "B": B, "A": A})
        if len(qs) >= nq:
            break
    return {"sig": sig, "base": [{"vec": v, "B": B, "A": A} for v, (B, A) in zip(bv, conds)], "qs": qs, "via": "api"}


def gen_case_dups(rng, nq=8):
    """Bases that state a conditional two or three times (identical formulas, separate keys) next to others of the same
    layer, with queries whose two sides differ in WHICH conditional they falsify: the doubled one or a single one. Wherever
    falsified conditionals are counted (lex), summed (c-representations) or collected in sets, a duplicate must count."""
    sig = SIG[:3]
    lit = lambda: (M.V(rng.choice(sig)) if rng.random() < 0.5 else M.Not(M.V(rng.choice(sig))))
    for _ in range(300):
        k = rng.choice([2, 3, 3])
        conds, seen = [], set()
        while len(conds) < k:
            c = (lit(), M.TOP if rng.random() < 0.5 else lit())
            if M.render_cond(*c) not in seen:
                seen.add(M.render_cond(*c))
                conds.append(c)
        d = rng.randrange(k)
        base = conds + [conds[d]] * rng.choice([1, 1, 2])
        rng.shuffle(base)
        bv = [M.cond_vec(B, A, sig) for B, A in base]
        fin, inf = pysem.part(bv)
        if not inf and fin:
            break
    else:
        return None
    fal = lambda c: M.And(c[1], M.Not(c[0])) if c[1] != M.TOP else M.Not(c[0])
    qs, seen = [], set()
    cands = []
    for i in range(k):
        for j in range(k):
            if i != j:
                cands.append((fal(conds[i]), M.Or(fal(conds[i]), fal(conds[j]))))          # falsify i rather than j?
                cands.append((M.Not(fal(conds[i])), M.Or(fal(conds[i]), fal(conds[j]))))
    rng.shuffle(cands)
    for _ in range(nq):
        q = gen_cond(sig, rng)
        cands.append((q["B"], q["A"]))
    for (B, A) in cands:
        t = M.render_cond(B, A)
        if t not in seen:
            seen.add(t)
            qs.append({"vec": M.cond_vec(B, A, sig), "B": B, "A": A})
        if len(qs) >= nq:
            break
    return {"sig": sig, "base": [{"vec": v, "B": B, "A": A} for v, (B, A) in zip(bv, base)], "qs": qs, "via": "api"}


def gen_case_inherit(rng, nq=8):
    """Inheritance with exceptions over 5-6 atoms (beyond the oracle; for the relational checks): a class b with default
    properties (q_i|b), a subclass p with (b|p), an exception (!q_1|p) and a compound exception (!q_j,!q_k | p,q_m). Queries
    (+-q_a | p, +-q_b[, +-q_c]) tie in the upper layer on a non-empty falsification set and are decided by differently sized
    correction sets of the lower layer -- the shape on which bookkeeping across the layer recursion (ignore lists, carried
    costs, insertion order of the conditionals) shows."""
    k = rng.choice([3, 4, 4])
    props = [f"q{i}" for i in range(1, k + 1)]
    sig = ["b", "p"] + props
    V, N = M.V, M.Not
    base = [(V(q), V("b")) for q in props] + [(V("b"), V("p")), (N(V(props[0])), V("p"))]
    j, kk, m = rng.sample(props[1:] if k >= 4 else props, 3) if k >= 4 else (props[1], props[2], props[0])
    base.append((M.And(N(V(j)), N(V(kk))), M.And(V("p"), V(m))))
    if rng.random() < 0.5:
        base.append((N(V(rng.choice(props))), M.And(V("p"), V(rng.choice(props)))))
    rng.shuffle(base)
    lit = lambda a: V(a) if rng.random() < 0.5 else N(V(a))
    qs, seen = [], set()
    while len(qs) < nq:
        a, b2, c2 = rng.sample(props, 3)
        A = M.And(V("p"), lit(b2)) if rng.random() < 0.6 else M.And(M.And(V("p"), lit(b2)), lit(c2))
        q = (lit(a), A)
        t = M.render_cond(*q)
        if t not in seen:
            seen.add(t)
            qs.append(q)
    return {"sig": sig, "base": base, "qs": qs}


def gen_case_chain(rng, nq=12):
    """Specificity chains (exceptions of exceptions): bases with three or more tolerance layers over 4-5 atoms, with
    queries whose antecedents are arbitrary depth-2 formulas (biconditional-like shapes included)."""
    k = rng.choice([3, 3, 4])
    sig = SIG[: k + 1] if rng.random() < 0.6 or k == 4 else SIG[: k + 2]
    cls, prop = sig[:k], sig[k]
    for _ in range(50):
        conds = []
        sign = rng.random() < 0.5
        for i, c in enumerate(cls):
            conds.append((M.V(prop) if sign else M.Not(M.V(prop)), M.V(c)))
            sign = not sign
            if i + 1 < len(cls):
                conds.append((M.V(c), M.V(cls[i + 1])))
        if rng.random() < 0.5:
            g = gen_cond(sig, rng)
            conds.append((g["B"], g["A"]))
        rng.shuffle(conds)
        bv = [M.cond_vec(B, A, sig) for B, A in conds]
        fin, inf = pysem.part(bv)
        if not inf and len(fin) >= 3:
            break
    else:
        return None
    qs, seen = [], set()
    for _ in range(nq * 3):
        r = rng.random()
        if r < 0.5:
            A = M.random_formula(sig, 2, rng, 0.0)
            B = M.V(rng.choice(sig)) if rng.random() < 0.5 else M.Not(M.V(rng.choice(sig)))
        elif r < 0.8:
            x, y = rng.sample(sig, 2)
            iff = M.Or(M.And(M.V(x), M.V(y)), M.And(M.Not(M.V(x)), M.Not(M.V(y))))
            A = M.And(M.V(rng.choice(sig)), iff if rng.random() < 0.5 else M.Not(iff))
            B = M.V(rng.choice(sig)) if rng.random() < 0.5 else M.Not(M.V(rng.choice(sig)))
        else:
            g = gen_cond(sig, rng)
            B, A = g["B"], g["A"]
        t = M.render_cond(B, A)
        if t not in seen:
            seen.add(t)
            qs.append({"vec": M.cond_vec(B, A, sig), "B": B, "A": A})
        if len(qs) >= nq:
            break
    return {"sig": sig, "base": [{"vec": v, "B": B, "A": A} for v, (B, A) in zip(bv, conds)], "qs": qs, "via": "api"}


def search_distinguishing(chk: Check, rng, n_cases, nq=30):
    """Live search (thorough tier): TLC evaluates the as-coded variants against the definitions on seeded 3-atom cases,
    checks that every algorithm of InfOCFAlgo refines its definition there, and returns the distinguishing inputs."""
    cases = []
    while len(cases) < n_cases:
        nc = rng.choice([3, 4, 4, 5])
        base = [_rand_vec(8, rng, 0.35, 0.35) for _ in range(nc)]
        fin, inf = pysem.part(base)
        if inf or len(fin) < 2 or max(len(l) for l in fin[1:]) < 2:
            continue
        cases.append({"b": [M.cond_index(v) for v in base], "qs": [M.cond_index(_rand_vec(8, rng, 0.3, 0.35)) for _ in range(nq)]})
    os.makedirs(os.path.join(BUILD, "in"), exist_ok=True)
    cf = os.path.join(BUILD, "in", f"{chk.prop}_algo_cases.json")
    with open(cf, "w") as f:
        json.dump(cases, f)
    cfg = tlc.cfg_text(invariants=["AlgoRefinesDef"], constants={"NW": 8, "MaxB": 2, "FromFile": True, "MaxReport": 5, "CU": 0})
    res = tlc.run("MC_AlgoRefines", cfg, f"{chk.prop}_algo", env={"CASES_FILE": cf}, timeout=3000)
    if res.violated:
        machinery_failure(f"MC_AlgoRefines: an algorithm of InfOCFAlgo does not refine its definition\n{res.out[-2000:]}")
    tlc.require_ok(res, "MC_AlgoRefines")
    chk.add_tlc("MC_AlgoRefines:3atoms", res, f"{n_cases} seeded 3-atom bases x {nq} queries: Algo = Sem, wrong variants reported")
    return res.prints


def verify_algo(chk: Check, tier, with_c=False):
    """MC_AlgoRefines on the exhaustive 2-atom universe: as-coded recursions = definitions; wrong variants differ (non-vacuity).
    with_c: also the constraint system of c-inference over minimal correction sets = skeptical inference over all c-representations."""
    cfg = tlc.cfg_text(invariants=["AlgoRefinesDef"], constants={"NW": 4, "MaxB": 1 if tier == "quick" else 2, "FromFile": False, "MaxReport": 5, "CU": 3 if with_c else 0})
    res = tlc.run("MC_AlgoRefines", cfg, f"{chk.prop}_algo2", timeout=3000)
    if res.violated:
        machinery_failure(f"MC_AlgoRefines: an algorithm of InfOCFAlgo does not refine its definition\n{res.out[-2000:]}")
    tlc.require_ok(res, "MC_AlgoRefines")
    variants = {p["variant"] for p in res.prints if "variant" in p}
    chk.add_tlc("MC_AlgoRefines:2atoms", res, f"as-coded recursions of Z/W/lex/PInf equal their definitions; variants differing here: {sorted(variants)}")
    chk.cov["wrong_variants_detected_by_spec"] = sorted(variants | {"lexAllPairs (3-atom inputs in spec/distinguishing.json)"})
