"""C12: answers depend only on meaning, not on presentation (keys, order, atom names, signature, equivalent rewrites)."""
from __future__ import annotations

import random

import model as M
import pysem
from common import Check
from drivers import infer, relations as rel


def rename_tree(f, mp):
    t = f[0]
    if t == "var":
        return ("var", mp[f[1]])
    if t in ("top", "bot"):
        return f
    return (t,) + tuple(rename_tree(x, mp) for x in f[1:])


def _distinct_texts(new, orig):
    seen, out = set(), []
    for c, o in zip(new, orig):
        if M.render_cond(*c) in seen:
            c = o
        seen.add(M.render_cond(*c))
        out.append(c)
    return out


def make_variations(case, rng):
    """case: sig, base [(B, A)], qs [(B, A)]. Returns list of (name, variation dict)."""
    sig, base, qs = case["sig"], case["base"], case["qs"]
    n, m = len(base), len(qs)
    out = [("canonical", {"sig": sig, "base": base, "keys": list(range(1, n + 1)), "qs": qs, "qkeys": list(range(1, m + 1))})]
    if case.get("keyfocus"):
        # key-focused stage: the reserved-looking key 0 lands on every conditional in turn
        for r in range(n):
            out.append((f"rot{r}", {"sig": sig, "base": base, "keys": [(i - r) % n for i in range(n)], "qs": qs, "qkeys": list(range(0, m))}))
        # ... and the ORDER in which the conditionals are inserted: reversed, rotated, shuffled (upper-layer conditionals before
        # lower-layer ones and vice versa); keys 1..n follow the new order
        orders = [list(reversed(range(n))), list(range(1, n)) + [0], [n - 1] + list(range(0, n - 1))]
        sh = list(range(n))
        rng.shuffle(sh)
        orders.append(sh)
        for oi, od in enumerate(orders):
            out.append((f"order{oi}", {"sig": sig, "base": [base[i] for i in od], "keys": list(range(1, n + 1)), "qs": qs, "qkeys": list(range(1, m + 1))}))
        return out
    out.append(("keys0", {"sig": sig, "base": base, "keys": list(range(0, n)), "qs": qs, "qkeys": list(range(0, m))}))
    sparse = sorted(rng.sample(range(0, 60), n))
    out.append(("sparse", {"sig": sig, "base": base, "keys": sparse, "qs": qs, "qkeys": sorted(rng.sample(range(0, 90), m))}))
    out.append(("descending", {"sig": sig, "base": base, "keys": list(range(n, 0, -1)), "qs": qs, "qkeys": list(range(m, 0, -1))}))
    perm = list(range(n))
    rng.shuffle(perm)
    out.append(("permuted", {"sig": sig, "base": [base[i] for i in perm], "keys": list(range(1, n + 1)), "qs": qs, "qkeys": list(range(1, m + 1))}))
    # the same key -> conditional pairs listed in other orders (only the dict insertion order differs)
    out.append(("reversed", {"sig": sig, "base": list(reversed(base)), "keys": list(range(n, 0, -1)), "qs": qs, "qkeys": list(range(1, m + 1))}))
    rot = base[1:] + base[:1]
    out.append(("rotated", {"sig": sig, "base": rot, "keys": list(range(2, n + 1)) + [1], "qs": qs, "qkeys": list(range(1, m + 1))}))
    rk = rng.sample(range(0, 3 * n + 2), n)
    out.append(("randkeys", {"sig": sig, "base": base, "keys": rk, "qs": qs, "qkeys": rng.sample(range(0, 3 * m + 2), m)}))
    # renaming (consistent), incl. names that look like the reserved words / helper names
    names = ["p", "q", "r", "s", "t", "u", "v", "w", "eta", "mv", "x1", "Topp", "bottom"] + [f"n{i}_y" for i in range(len(sig))]
    fresh = rng.sample(names, len(sig))
    mp = dict(zip(sig, fresh))
    out.append(("renamed", {"sig": [mp[a] for a in sig], "base": [(rename_tree(B, mp), rename_tree(A, mp)) for B, A in base], "keys": list(range(1, n + 1)),
                            "qs": [(rename_tree(B, mp), rename_tree(A, mp)) for B, A in qs], "qkeys": list(range(1, m + 1))}))
    sig2 = list(sig)
    rng.shuffle(sig2)
    out.append(("sig-reordered-extended", {"sig": sig2 + ["zz1", "zz2"], "base": base, "keys": list(range(1, n + 1)), "qs": qs, "qkeys": list(range(1, m + 1))}))
    # equivalent rewrites of antecedents / consequents in base and query
    rb = [(rel._rw(B, rng, sig) if rng.random() < 0.6 else B, rel._rw(A, rng, sig) if rng.random() < 0.6 else A) for B, A in base]
    rq = [(rel._rw(B, rng, sig) if rng.random() < 0.6 else B, rel._rw(A, rng, sig) if rng.random() < 0.6 else A) for B, A in qs]
    rq = _distinct_texts(rq, qs)
    out.append(("rewritten", {"sig": sig, "base": rb, "keys": list(range(1, n + 1)), "qs": rq, "qkeys": list(range(1, m + 1))}))
    if len(sig) <= 4:
        # re-presentation from the semantic vector (changes the consequent outside the antecedent, styles DNF/CNF/minterm/...)
        pb = [M.present(M.cond_vec(B, A, sig), sig, rng) for B, A in base]
        pq = [M.present(M.cond_vec(B, A, sig), sig, rng) for B, A in qs]
        pq = _distinct_texts(pq, qs)  # duplicate query texts in one batch are C13's subject, not C12's
        out.append(("re-presented", {"sig": sig, "base": pb, "keys": list(range(1, n + 1)), "qs": pq, "qkeys": list(range(1, m + 1))}))
    return out


def _exec_var(args):
    case, configs, seed = args
    import impl

    rng = random.Random(seed)
    vs = make_variations(case, rng)
    out = []
    for (s, be, weakly) in configs:
        per = {}
        for name, v in vs:
            try:
                bb = M.make_base(v["sig"], {k: c for k, c in zip(v["keys"], v["base"])}, "kb")
                qs = M.make_queries({k: c for k, c in zip(v["qkeys"], v["qs"])})
                r = impl.ask(bb, qs, s, be, weakly)
                keys_ok = (not r["raised"]) and [row["key"] for row in r["rows"]] == list(v["qkeys"])
            except BaseException as e:
                if isinstance(e, (KeyboardInterrupt, SystemExit)):
                    raise
                r = {"raised": True, "exc": "construct:" + type(e).__name__ + ": " + str(e)[:200], "obs": []}
                keys_ok = False
            per[name] = {"raised": r["raised"], "exc": r["exc"], "obs": r["obs"], "keys_ok": keys_ok,
                         "doc": {"signature": v["sig"], "keys": v["keys"], "base": [M.render_cond(*c) for c in v["base"]], "qkeys": v["qkeys"], "queries": [M.render_cond(*c) for c in v["qs"]]}}
        out.append({"sys": s, "backend": be, "weakly": weakly, "per": per})
    return out


def run(chk: Check, tier: str):
    rng = random.Random(chk.seed)
    infer.verify_theorems(chk, ["Coincide"], tier, rng, sample2=30)
    n_small = 70 if tier == "quick" else 900
    n_big = 10 if tier == "quick" else 120
    cases = []
    for i in range(n_small):
        if i % 2:  # every second case has at least two finite layers (tie-breaking recursion is exercised)
            c = infer.gen_case(rng, rng.choice([3, 3, 4]), rng.choice([3, 4, 5]), 8, {"strong", "weak-mixed"}, min_layers=2)
        else:
            c = infer.gen_case(rng, rng.choice([2, 3, 3, 4]), rng.choice([1, 2, 3, 3, 4]), 6, {"strong", "weak-mixed", "weak-nofin"})
        if c:
            cases.append({"sig": c["sig"], "base": [(x["B"], x["A"]) for x in c["base"]], "qs": [(x["B"], x["A"]) for x in c["qs"]], "small": True})
    # TLC-found inputs with several tied correction sets in one layer (InfOCFAlgo's wrong variants): order- and key-sensitive shapes
    for var, cnt in (("lexAllPairs", 10), ("wAnyTie", 10), ("lexAllMcsF", 8), ("wMinCard", 8)):
        for c in infer.distinguishing_cases(rng, var)[: (cnt if tier == "quick" else 60)]:
            cases.append({"sig": c["sig"], "base": [(x["B"], x["A"]) for x in c["base"]], "qs": [(x["B"], x["A"]) for x in c["qs"]], "small": True, "wl_only": True})
    # a conditional stated two or three times with identical formulas: the re-written / re-presented variants state the
    # copies differently, the meaning (a multiset of conditionals) is the same
    for _ in range(30 if tier == "quick" else 500):
        c = infer.gen_case_dups(rng)
        if c:
            cases.append({"sig": c["sig"], "base": [(x["B"], x["A"]) for x in c["base"]], "qs": [(x["B"], x["A"]) for x in c["qs"]], "small": True})
    # inheritance with exceptions over 5-6 atoms: ties on a non-empty set in the upper layer, decided below (order- and
    # bookkeeping-sensitive); beyond the oracle, so only equality across presentations is required
    for _ in range(24 if tier == "quick" else 400):
        c = infer.gen_case_inherit(rng)
        cases.append({"sig": c["sig"], "base": c["base"], "qs": c["qs"], "small": False, "wl_only": True})
    for g in rel.generated_cases(rng, n_big, atom_range=(6, 20), nq=5):
        cases.append({"sig": g["sig"], "base": g["base"], "qs": g["qs"], "small": False})
    configs = infer.configs_for(["p", "z", "w", "l", "c"], [False, True])
    wl = [c for c in configs if c[0] in ("w", "l") and not (c[2] and c[1] == "z3")]  # the tie-sensitive operators only
    tasks = [(c, wl if c.get("wl_only") else configs, rng.randrange(1 << 30)) for c in cases]
    # key-focused stage: many multi-layer bases, every rotation of the keys 0..n-1, the operators that address conditionals by key
    kconfigs = [("p", "", False), ("w", "rc2", False), ("l", "rc2", False), ("c", "rc2", False), ("w", "rc2", True), ("l", "rc2", True)]
    for i in range(300 if tier == "quick" else 6000):
        c = infer.gen_case(rng, 3, rng.choice([3, 4, 4, 5]), 10, {"strong"} if i % 4 else {"weak-mixed"}, min_layers=2)
        if c:
            kc = {"sig": c["sig"], "base": [(x["B"], x["A"]) for x in c["base"]], "qs": [(x["B"], x["A"]) for x in c["qs"]], "small": False, "keyfocus": True}
            cases.append(kc)
            tasks.append((kc, kconfigs, rng.randrange(1 << 30)))
    results = infer.pool_map(_exec_var, tasks, chunksize=1)
    eq_events, eq_idx, inf_events, inf_idx = [], [], [], []
    for ci, (case, res) in enumerate(zip(cases, results)):
        small = case["small"]
        bv = [M.cond_vec(B, A, case["sig"]) for B, A in case["base"]] if small else None
        qv = [M.cond_vec(B, A, case["sig"]) for B, A in case["qs"]] if small else None
        shape = pysem.shape(bv) if small else None
        for rec in res:
            s, be, weakly = rec["sys"], rec["backend"], rec["weakly"]
            per = rec["per"]
            raised = {k: v for k, v in per.items() if v["raised"]}
            okv = {k: v for k, v in per.items() if not v["raised"]}
            chk.add_eval(sum(len(v["obs"]) for v in okv.values()))
            # a refusal must be unanimous across presentations (base inconsistent for the mode)
            if raised and okv:
                for name, v in raised.items():
                    chk.violation(f"present/{rel.cfg_name(s, be)}/ext={weakly}/{name}/raised|{';'.join(per['canonical']['doc']['base'])}",
                                  f"{rel.cfg_name(s, be)} weakly={weakly}: presentation '{name}' raised {v['exc']} while {sorted(okv)} answered",
                                  {"kind": "present", "config": [s, be, weakly], "variation": name, "presentation": v["doc"], "canonical": per["canonical"]["doc"], "exception": v["exc"]})
            for name, v in okv.items():
                if not v["keys_ok"]:
                    chk.violation(f"present/{rel.cfg_name(s, be)}/ext={weakly}/{name}/rowkeys|{';'.join(per['canonical']['doc']['base'])}",
                                  f"{rel.cfg_name(s, be)} weakly={weakly}: presentation '{name}': returned rows do not carry the submitted query keys in order",
                                  {"kind": "present", "config": [s, be, weakly], "variation": name, "presentation": v["doc"]})
            if len(okv) >= 2:
                eq_events.append({"ev": "equal", "ans": {k.replace("-", "_"): v["obs"] for k, v in okv.items()}})
                eq_idx.append((ci, rec))
                chk.nontrivial([ci, s, be, weakly])
            if small and okv:
                # the oracle applies: validate the canonical presentation and one other against the specification
                for name in list(okv)[:1] + [k for k in okv if k == "keys0"]:
                    inf_events.append({"ev": "infer", "nw": 1 << len(case["sig"]), "sys": s, "weakly": weakly, "base": bv, "qs": qv, "raised": False,
                                       "obs": okv[name]["obs"], "cu": infer.cu_for(len(bv)), "cusafe": infer.cu_for(len(bv))})
                    inf_idx.append((ci, rec, name))
            elif small and raised and not okv:
                inf_events.append({"ev": "infer", "nw": 1 << len(case["sig"]), "sys": s, "weakly": weakly, "base": bv, "qs": qv, "raised": True, "obs": [],
                                   "cu": infer.cu_for(len(bv)), "cusafe": infer.cu_for(len(bv))})
                inf_idx.append((ci, rec, "canonical"))
    for rj in rel.validate_rel(chk, eq_events, "equal"):
        ci, rec = eq_idx[rj["reject"] - 1]
        per = rec["per"]
        for qi in rj["what"]:
            col = {k: v["obs"][qi - 1] for k, v in per.items() if not v["raised"] and len(v["obs"]) >= qi}
            odd = [k for k, a in col.items() if a != col.get("canonical")]
            name = odd[0] if odd else "?"
            chk.violation(f"present/{rel.cfg_name(rec['sys'], rec['backend'])}/ext={rec['weakly']}/{name}|{';'.join(per['canonical']['doc']['base'])}|q={per['canonical']['doc']['queries'][qi - 1]}",
                          f"{rel.cfg_name(rec['sys'], rec['backend'])} weakly={rec['weakly']}: query {per['canonical']['doc']['queries'][qi - 1]} answered differently across presentations: {col}",
                          {"kind": "present", "config": [rec["sys"], rec["backend"], rec["weakly"]], "answers": col, "canonical": per["canonical"]["doc"],
                           "differing": {k: per[k]["doc"] for k in odd[:3]}, "query_index": qi - 1})
    for rj in infer.validate_events(chk, inf_events, "oracle"):
        ci, rec, name = inf_idx[rj["reject"] - 1]
        per = rec["per"]
        chk.violation(f"present/{rel.cfg_name(rec['sys'], rec['backend'])}/ext={rec['weakly']}/{name}/oracle|{';'.join(per['canonical']['doc']['base'])}",
                      f"{rel.cfg_name(rec['sys'], rec['backend'])} weakly={rec['weakly']}, presentation '{name}': spec {infer._short(rj['exp'])}, code {infer._short(rj['obs'])} ({per[name]['exc']})",
                      {"kind": "present-oracle", "config": [rec["sys"], rec["backend"], rec["weakly"]], "variation": name, "presentation": per[name]["doc"], "expected": rj["exp"], "observed": rj["obs"]})
    chk.cov["rule"] = (
        "Each base (sampled 2-4 atoms: all consistency shapes; generated 6-20 atoms) is built programmatically in 9-10 presentations: keys 1..n, 0..n-1, sparse, descending, "
        "random with 0, permuted order, consistent atom renaming (incl. names resembling internal helper variables), signature reordered + extended by unused atoms, "
        "equivalence-preserving rewrites, re-presentation from the semantic vector; query keys varied likewise. Every operator x back-end x mode answers each presentation; TLC requires "
        "pointwise equal answers (Trace_Relations) and, for <=4 atoms, equality with the specification's answer (Trace_Ops); returned rows must carry the submitted keys. "
        "Key-focused stage: multi-layer 3-atom bases, every rotation of the keys 0..n-1 (key 0 lands on each conditional in turn), operators p/W/lex/c. "
        "Non-trivial = (case, configuration) with at least two answering presentations."
    )
    chk.assumptions += ["spec answers are a function of the semantic conditionals only (by construction of InfOCFSem)"]
    if cases:
        vs = make_variations(cases[0], random.Random(1))
        chk.sample({"canonical_base": [M.render_cond(*c) for c in cases[0]["base"]], "variations": [n for n, _ in vs],
                    "example_sparse_keys": vs[2][1]["keys"], "example_rewritten": [M.render_cond(*c) for c in vs[8][1]["base"]]})
    return chk.finish()
