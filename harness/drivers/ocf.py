"""C16 / C17 / C20 (and the stateful part of C18): life cycles of ranking objects recorded from the real PreOCF
classes and validated by TLC against Ocf.tla + the semantic core (Trace_Ocf)."""
from __future__ import annotations

import json
import os
import random
import shutil
import subprocess
import sys
import tempfile

import model as M
import pysem
import tlc
from common import BUILD, REPO, Check, machinery_failure
from drivers import infer, manager


def wstr(w, n):
    return format(w - 1, "0%db" % n)


def proj_ranks(obj, n):
    return [(-1 if obj.ranks.get(wstr(w, n)) is None else int(obj.ranks[wstr(w, n)])) for w in range(1, (1 << n) + 1)]


def aux_of(obj):
    return getattr(obj, "_optimizer", None) is not None or getattr(obj, "_csp", None) is not None


SUB = r"""
import sys, json, warnings
warnings.filterwarnings('ignore')
sys.path[:0] = [%r, %r]
import os
os.environ['INFOCF_LOGLEVEL'] = 'ERROR'
from inference.preocf import PreOCF
out = []
for path, n in json.loads(sys.argv[1]):
    o = PreOCF.load_ocf(path, trusted=True)
    def pr():
        return [(-1 if o.ranks.get(format(w, '0%%db' %% n)) is None else int(o.ranks[format(w, '0%%db' %% n)])) for w in range(1 << n)]
    before = pr()
    try:
        o.compute_all_ranks(); after = pr(); err = None
    except Exception as e:
        after = None; err = type(e).__name__ + ': ' + str(e)[:200]
    out.append({'path': path, 'before': before, 'after': after, 'err': err, 'signature': list(o.signature), 'impacts': getattr(o, '_impacts', None)})
print('RESULT' + json.dumps(out))
"""


FRONT = r"""
import sys, json, warnings
warnings.filterwarnings('ignore')
sys.path.insert(0, %r)
import os
os.environ['INFOCF_LOGLEVEL'] = 'ERROR'
from parser.Wrappers import parse_belief_base
from inference.c_revision import c_inference_pareto_front
vs = c_inference_pareto_front(parse_belief_base(sys.argv[1]))
print('RESULT' + json.dumps([[int(x) for x in v] for v in vs]))
"""

# the same for a base built programmatically under given integer keys (argv[1]: {"sig", "keys", "base": trees})
FRONT_KEYED = r"""
import sys, json, warnings
warnings.filterwarnings('ignore')
sys.path[:0] = [%r, %r]
import os
os.environ['INFOCF_LOGLEVEL'] = 'ERROR'
import model as M
from inference.c_revision import c_inference_pareto_front
d = json.loads(sys.argv[1])
def tup(x):
    return tuple(tup(y) for y in x) if isinstance(x, list) else x
bb = M.make_base(d['sig'], {k: (tup(B), tup(A)) for k, (B, A) in zip(d['keys'], d['base'])})
vs = c_inference_pareto_front(bb)
print('RESULT' + json.dumps([[int(x) for x in v] for v in vs]))
"""


def _exec_life(sc):
    """Run one life-cycle scenario on the real classes; returns the trace (env + events)."""
    import impl
    from inference.preocf import PreOCF

    rng = random.Random(sc["seed"])
    sig, n = sc["sig"], len(sc["sig"])
    nw = 1 << n
    env = {"nw": nw, "kind": sc["kind"], "base": [M.cond_vec(B, A, sig) for B, A in sc["base"]], "facts": [M.models(f, sig) for f in sc["facts"]],
           "extended": {None: "N", True: "T", False: "F"}[sc["extended"]], "custom": sc.get("custom") or []}
    evs = []
    out = {"sc": sc, "env": env, "events": evs, "error": None}
    tmp = tempfile.mkdtemp(prefix="ocf_", dir=os.path.join(BUILD, "traces"))
    try:
        keys = sc.get("keys") or list(range(1, len(sc["base"]) + 1))
        bb = M.make_base(sig, {k: c for k, c in zip(keys, sc["base"])}) if sc["base"] else None
        # impact vectors are ordered by conditional key (ascending); the trace speaks about positions in sc["base"]
        order = sorted(keys)
        by_pos = lambda vec: [int(vec[order.index(k)]) for k in keys] if len(vec) == len(keys) else [int(x) for x in vec]
        if sc["kind"] == "c":
            import z3

            z3.set_param("timeout", 120000)  # a constraint system that z3 cannot finish becomes a refusal instead of a hang
        objs = []
        # ---- construct
        try:
            if sc["kind"] == "z":
                facts = [(M.render(f) if i % 2 else M.to_pysmt(f)) for i, f in enumerate(sc["facts"])] or None
                o = impl.with_limit(120, PreOCF.init_system_z, bb, facts=facts, extended=sc["extended"])
            elif sc["kind"] == "c":
                o = impl.with_limit(120, PreOCF.init_random_min_c_rep, bb)
            else:
                o = PreOCF.init_custom({wstr(w, n): sc["custom"][w - 1] for w in range(1, nw + 1)}, signature=list(sig))
            evs.append({"ev": "construct", "outcome": "ok", "aux": aux_of(o), "impacts": by_pos(getattr(o, "_impacts", []))})
            objs.append(o)
        except ValueError as e:
            evs.append({"ev": "construct", "outcome": "refused", "aux": False, "impacts": [], "msg": str(e)[:200]})
            return out
        except BaseException as e:
            if isinstance(e, (KeyboardInterrupt, SystemExit)):
                raise
            evs.append({"ev": "construct", "outcome": "error:" + type(e).__name__, "aux": False, "impacts": [], "msg": str(e)[:200]})
            return out
        files, fresh = [], []
        for step in sc["ops"]:
            k = step[0]
            oi = step[1] if len(step) > 1 and isinstance(step[1], int) else 1
            if oi > len(objs):
                oi = len(objs)
            o = objs[oi - 1]
            try:
                if k == "rank":
                    r = o.rank_world(wstr(step[2], n), force_calculation=step[3])
                    evs.append({"ev": "rank", "o": oi, "w": step[2], "force": step[3], "result": int(r), "ranks": proj_ranks(o, n)})
                elif k == "all":
                    o.compute_all_ranks()
                    evs.append({"ev": "all", "o": oi, "ranks": proj_ranks(o, n)})
                elif k == "frank":
                    f = step[2]
                    r = o.formula_rank(M.to_pysmt(f))
                    evs.append({"ev": "frank", "o": oi, "worlds": M.models(f, sig), "result": -1 if r is None else int(r), "ranks": proj_ranks(o, n), "formula": M.render(f)})
                elif k == "accept":
                    B, A = step[2]
                    r = o.conditional_acceptance(M.make_conditional(B, A))
                    evs.append({"ev": "accept", "o": oi, "cond": M.cond_vec(B, A, sig), "result": bool(r), "ranks": proj_ranks(o, n), "text": M.render_cond(B, A)})
                    if sc["kind"] == "z" and oi == 1:
                        a = impl.ask(M.make_base(sig, {i + 1: c for i, c in enumerate(sc["base"] + [(M.BOT, M.Not(f)) for f in sc["facts"]])}), M.make_queries({1: (B, A)}), "z", "",
                                     weakly=(bool(sc["facts"]) if sc["extended"] is None else bool(sc["extended"])))
                        if not a["raised"]:
                            evs.append({"ev": "zop", "cond": M.cond_vec(B, A, sig), "result": a["obs"][0] == "T", "text": M.render_cond(B, A)})
                elif k == "zview":
                    # position of each conditional of the partition: base conditionals by identity, fact conditionals by their running index
                    o1 = objs[0]
                    pos = {id(c): i + 1 for i, c in enumerate(bb.conditionals[kk] for kk in keys)}
                    top = max(keys, default=0)
                    where = lambda c: pos[id(c)] if id(c) in pos else (len(keys) + (c.index - top) if isinstance(getattr(c, "index", None), int) and c.index > top else -1)
                    layers = [[where(c) for c in layer] for layer in o1._z_partition]
                    if oi > 1:  # a reloaded copy has its own conditional objects: same partition, conditional by conditional (C20)
                        evs.append({"ev": "same", "what": "z-partition", "a": json.dumps([[str(c) for c in layer] for layer in o1._z_partition]),
                                    "b": json.dumps([[str(c) for c in layer] for layer in o._z_partition])})
                    ip = o.infinity_partition
                    evs.append({"ev": "zview", "o": oi, "layers": layers, "sizes": [int(x) for x in o.partition_layer_sizes()], "extended": bool(o.uses_extended_partition),
                                "inf_index": -1 if o.infinity_partition_index is None else int(o.infinity_partition_index),
                                "inf_keys": [] if ip is None else layers[-1] if ip is o._z_partition[-1] else [-2], "has_inf": bool(o.has_infinity_partition),
                                "text": o.format_partition_layers(), "summary": o.summary()[:200]})
                elif k == "isocf":
                    evs.append({"ev": "isocf", "o": oi, "result": bool(o.is_ocf())})
                elif k == "condexist":
                    f = step[2]
                    d = o.conditionalize_existing_ranks(M.to_pysmt(f))
                    evs.append({"ev": "condexist", "o": oi, "worlds": M.models(f, sig), "result": [[int(w, 2) + 1, (-1 if r is None else int(r))] for w, r in d.items()], "formula": M.render(f)})
                elif k == "cop":
                    B, A = step[2]
                    a = impl.ask(M.make_base(sig, {k_: c for k_, c in zip(keys, sc["base"])}), M.make_queries({1: (B, A)}), "c", "rc2", False)
                    if not a["raised"]:
                        evs.append({"ev": "cop", "cond": M.cond_vec(B, A, sig), "result": a["obs"][0] == "T", "text": M.render_cond(B, A)})
                elif k == "front":
                    src = FRONT % (REPO,)
                    text = M.render_base(sig, sc["base"])
                    if sc.get("keys"):
                        src = FRONT_KEYED % (REPO, os.path.dirname(os.path.dirname(os.path.abspath(__file__))))
                        text = json.dumps({"sig": list(sig), "keys": keys, "base": sc["base"]})
                    try:
                        p = subprocess.run([sys.executable, "-W", "ignore", "-c", src, text], capture_output=True, text=True, timeout=step[2])
                        line = [x for x in p.stdout.splitlines() if x.startswith("RESULT")]
                        if line:
                            vecs_ = [by_pos(v) for v in json.loads(line[0][6:])]
                            mx = max([max(v) for v in vecs_ if v] + [0])
                            nb = len(sc["base"])
                            bound = max(1 << max(0, nb - 1), mx) + 1
                            if nb >= 4:  # keep TLC's quadratic Pareto filter affordable: the box is capped for 4+ conditionals
                                bound = min(bound, max(mx + 1, 5))
                            evs.append({"ev": "front", "vectors": vecs_, "bound": bound})
                        else:
                            evs.append({"ev": "front-error", "exc": (p.stderr or "")[-300:]})
                    except subprocess.TimeoutExpired:
                        evs.append({"ev": "front-timeout", "exc": f"c_inference_pareto_front did not return within {step[2]} s"})
                elif k == "save":
                    fname = f"f{len(files) + 1}.pkl"
                    mode = step[2]
                    path = os.path.join(tmp, fname)
                    undo = None
                    if mode == "nodir":
                        path = os.path.join(tmp, "missing_dir", fname)
                    elif mode == "readonly":
                        rd = os.path.join(tmp, "ro")
                        os.makedirs(rd, exist_ok=True)
                        path = os.path.join(rd, "x", fname)
                    elif mode == "unpicklable":
                        o._metadata["__verif_lambda__"] = (lambda x: x)
                        undo = lambda: o._metadata.pop("__verif_lambda__", None)
                    ok = True
                    try:
                        o.save_ocf(path)
                    except BaseException as e:
                        if isinstance(e, (KeyboardInterrupt, SystemExit)):
                            raise
                        ok = False
                    if undo:
                        undo()
                    evs.append({"ev": "save", "o": oi, "file": fname, "ok": ok, "ranks": proj_ranks(o, n), "aux": aux_of(o), "mode": mode})
                    if ok:
                        files.append((fname, path))
                elif k == "load":
                    if not files:
                        continue
                    fname, path = files[step[2] % len(files)]
                    o2 = PreOCF.load_ocf(path, trusted=True)
                    objs.append(o2)
                    evs.append({"ev": "load", "file": fname, "o": len(objs), "ranks": proj_ranks(o2, n)})
                    evs.append({"ev": "same", "what": "signature", "a": list(o.signature), "b": list(o2.signature)})
                    if hasattr(objs[0], "_impacts"):
                        evs.append({"ev": "same", "what": "impacts", "a": [int(x) for x in objs[0]._impacts], "b": [int(x) for x in getattr(o2, "_impacts", [])]})
                elif k == "freshload":
                    if files:
                        fresh.append(files[step[2] % len(files)])
                elif k == "impacts" and hasattr(o, "_impacts"):
                    for fmt, suffix in (("json", ".json"), ("pickle", ".pkl")):
                        p = os.path.join(tmp, "imp" + suffix)
                        o.export_impacts(p, fmt=fmt)
                        o3 = type(o).init_with_impacts(bb, p)
                        evs.append({"ev": "same", "what": "impacts-" + fmt, "a": [int(x) for x in o._impacts], "b": [int(x) for x in o3._impacts]})
                        o3.compute_all_ranks()
                        o.compute_all_ranks()
                        evs.append({"ev": "same", "what": "ranks-after-impacts-" + fmt, "a": proj_ranks(o, n), "b": proj_ranks(o3, n)})
                    vec = o.save_impacts()
                    o4 = type(o).init_with_impacts_list(bb, vec)
                    evs.append({"ev": "same", "what": "impacts-list", "a": [int(x) for x in o._impacts], "b": [int(x) for x in o4._impacts]})
                    # the vector is a value: what the caller does with its own list afterwards (or with an exported one)
                    # is no transition of either object -- lazy ranking on the copy continues as on the original
                    for j in range(len(vec)):
                        vec[j] += 1 + j
                    out_vec = o4.save_impacts()
                    for j in range(len(out_vec)):
                        out_vec[j] += 2
                    evs.append({"ev": "same", "what": "impacts-list-after-caller-mutation", "a": [int(x) for x in o._impacts], "b": [int(x) for x in o4._impacts]})
                    o4.compute_all_ranks()
                    o.compute_all_ranks()
                    evs.append({"ev": "same", "what": "ranks-after-impacts-list", "a": proj_ranks(o, n), "b": proj_ranks(o4, n)})
                    vec2 = [int(x) for x in o._impacts]
                    o4.load_impacts(vec2)
                    vec2[:] = [x + 3 for x in vec2]
                    evs.append({"ev": "same", "what": "impacts-load-after-caller-mutation", "a": [int(x) for x in o._impacts], "b": [int(x) for x in o4._impacts]})
                elif k == "meta":
                    md = {"s": "text", "i": 3, "l": [1, 2, {"x": None}], "b": True, "f": 0.5}
                    for kk, vv in md.items():
                        o.save_meta("verif_" + kk, vv)
                    want = {kk: vv for kk, vv in o.metadata.items() if kk.startswith("verif_")}
                    for name in ("m.json", "m.pkl", "m.pickle"):
                        p = os.path.join(tmp, name)
                        o.save_metadata(p)
                        o5 = PreOCF.init_custom({wstr(1, 1): 0, wstr(2, 1): 0}, signature=["a"])
                        o5.load_metadata(p)
                        got = {kk: vv for kk, vv in o5.metadata.items() if kk.startswith("verif_")}
                        evs.append({"ev": "same", "what": "metadata-" + name, "a": json.dumps(want, sort_keys=True), "b": json.dumps(got, sort_keys=True)})
            except BaseException as e:
                if isinstance(e, (KeyboardInterrupt, SystemExit)):
                    raise
                evs.append({"ev": "error", "step": str(step)[:120], "exc": type(e).__name__ + ": " + str(e)[:200]})
                return out
        if fresh:
            src = SUB % (REPO, os.path.join(os.path.dirname(os.path.dirname(os.path.abspath(__file__)))))
            p = subprocess.run([sys.executable, "-W", "ignore", "-c", src, json.dumps([[path, n] for _, path in fresh])], capture_output=True, text=True, timeout=300)
            line = [x for x in p.stdout.splitlines() if x.startswith("RESULT")]
            if not line:
                evs.append({"ev": "error", "step": "freshload", "exc": "fresh interpreter failed: " + p.stderr[-300:]})
                return out
            for (fname, path), r in zip(fresh, json.loads(line[0][6:])):
                objs.append(None)
                evs.append({"ev": "load", "file": fname, "o": len(objs), "ranks": r["before"], "fresh_process": True})
                if r["after"] is None:
                    evs.append({"ev": "error", "step": "freshload-compute", "exc": r["err"]})
                    return out
                evs.append({"ev": "all", "o": len(objs), "ranks": r["after"], "fresh_process": True})
                evs.append({"ev": "same", "what": "signature-fresh", "a": list(objs[0].signature), "b": r["signature"]})
                if hasattr(objs[0], "_impacts"):
                    evs.append({"ev": "same", "what": "impacts-fresh", "a": [int(x) for x in objs[0]._impacts], "b": r["impacts"]})
    except BaseException as e:
        if isinstance(e, (KeyboardInterrupt, SystemExit)):
            raise
        out["error"] = "harness: " + type(e).__name__ + ": " + str(e)[:300]
    finally:
        shutil.rmtree(tmp, ignore_errors=True)
    return out


def gen_ops(rng, sig, nw, n_ops, persistence, nqueries=3):
    ops = []
    nsaves = 0
    for _ in range(n_ops):
        r = rng.random()
        if r < 0.35:
            ops.append(["rank", 1, rng.randint(1, nw), rng.random() < 0.3])
        elif r < 0.45:
            ops.append(["all", 1])
        elif r < 0.6:
            ops.append(["frank", 1, M.random_formula(sig, 2, rng, consts=0.1)])
        elif r < 0.75:
            c = infer.gen_cond(sig, rng)
            ops.append(["accept", 1, (c["B"], c["A"])])
        elif r < 0.8:
            ops.append(rng.choice([["isocf", 1], ["condexist", 1, M.random_formula(sig, 2, rng, consts=0.1)]]))
        elif persistence:
            ops.append(["save", 1, rng.choice(["ok", "ok", "ok", "nodir", "readonly", "unpicklable"])])
            nsaves += 1
            if rng.random() < 0.8:
                ops.append(["load", 1, rng.randrange(4)])
                ops.append(["rank", 2, rng.randint(1, nw), False])
                ops.append(["rank", 1, rng.randint(1, nw), False])
    if persistence:
        ops += [["save", 1, "ok"], ["load", 1, rng.randrange(4)], ["all", 99], ["all", 1]]
        if rng.random() < 0.3:
            ops.append(["freshload", 1, rng.randrange(4)])
        if rng.random() < 0.5:
            ops.append(["impacts", 1])
        if rng.random() < 0.4:
            ops.append(["meta", 1])
    return ops


def gen_scenarios(rng, kinds, n, persistence):
    out = []
    tries = 0
    big = n > 1000  # thorough tiers also use 4-atom signatures
    while len(out) < n and tries < 20 * n:
        tries += 1
        kind = kinds[len(out) % len(kinds)]
        atoms = rng.choice([2, 2, 3, 3, 4]) if big else rng.choice([2, 2, 3])
        sig = infer.SIG[:atoms]
        nw = 1 << atoms
        sc = {"kind": kind, "sig": sig, "base": [], "facts": [], "extended": None, "seed": rng.randrange(1 << 30)}
        sparse = kind == "z" and rng.random() < 0.4  # System Z objects also get bases with sparse / shifted integer keys
        if kind == "z":
            ext = rng.choice([None, None, False, True])
            nf = rng.choice([0, 0, 1, 1, 2])
            from drivers import consist

            facts = consist.gen_facts(sig, rng)[:nf] if nf else []
            eff = (bool(facts) if ext is None else ext)
            shapes = {"strong"} if (not eff and not facts) else ({"strong", "weak-mixed", "weak-nofin"} if not facts else {"strong", "weak-mixed", "weak-nofin", "inconsistent"})
            c = infer.gen_case(rng, atoms, rng.choice([1, 2, 3, 3, 4]), 1, shapes)
            if not c:
                continue
            sc.update(base=[(x["B"], x["A"]) for x in c["base"]], facts=facts, extended=ext)
            if sparse:
                n_ = len(sc["base"])
                sc["keys"] = rng.choice([sorted(rng.sample(range(1, n_ + 4), n_)), list(range(2, n_ + 2)), list(range(0, n_)), list(range(9, 9 + n_))])
        elif kind == "c":
            c = infer.gen_case(rng, atoms, rng.choice([1, 2, 3, 3]), 1, {"strong"})
            if not c:
                continue
            sc.update(base=[(x["B"], x["A"]) for x in c["base"]])
            if rng.random() < 0.4:  # keys other than 1..n in insertion order: permuted, shifted, with gaps, 0-based
                n_ = len(sc["base"])
                sc["keys"] = rng.choice([list(range(n_, 0, -1)), list(range(2, n_ + 1)) + [1], sorted(rng.sample(range(1, n_ + 4), n_)), rng.sample(range(1, n_ + 4), n_),
                                         list(range(2, n_ + 2)), list(range(0, n_)),
                                         list(range(9, 9 + n_)), list(range(8 + n_, 8, -1))])  # two-digit keys: numeric vs string order
        else:
            ranks = [rng.choice([0, 0, 1, 2, 3, 4]) for _ in range(nw)] if rng.random() < 0.7 else [rng.choice([0, 2, 9, 10, 11, 30]) for _ in range(nw)]
            sc["custom"] = ranks
        sc["ops"] = gen_ops(rng, sig, nw, rng.choice([4, 6, 8]), persistence)
        if kind == "z":  # the object's view of its own partition, on the original and on the last copy
            sc["ops"].insert(rng.randrange(len(sc["ops"]) + 1), ["zview", 1])
            if persistence:
                sc["ops"].append(["zview", 99])
        out.append(sc)
    return out


def run_lifecycles(chk: Check, scen, tag):
    os.makedirs(os.path.join(BUILD, "traces"), exist_ok=True)
    results = infer.pool_map(_exec_life, scen, chunksize=2)
    traces, keep = [], []
    for r in results:
        if r["error"]:
            machinery_failure(r["error"])
        traces.append({"env": r["env"], "events": [{k: v for k, v in e.items() if k not in ("formula", "text", "msg", "mode", "what", "fresh_process", "step")} for e in r["events"]]})
        keep.append(r)
        chk.add_eval(len(r["events"]))
        if any(e["ev"] in ("save", "load", "rank", "frank", "accept") for e in r["events"]):
            chk.nontrivial([r["sc"]["kind"], r["env"]["base"], r["env"]["facts"], r["env"]["extended"], r["env"]["custom"], [e["ev"] for e in r["events"]], r["sc"]["seed"]])
    rej = manager.validate_traces(chk, traces, tag, module="Trace_Ocf", constants={}, invariants=("TraceCacheExact", "TraceDiskExact"))
    for rj in rej:
        r = keep[rj["reject"] - 1]
        sc = r["sc"]
        at = rj.get("at")
        ev = r["events"][at - 1] if isinstance(at, int) and 0 < at <= len(r["events"]) else rj.get("event")
        doc = {"kind": sc["kind"], "signature": sc["sig"], "base": [M.render_cond(*c) for c in sc["base"]], "facts": [M.render(f) for f in sc["facts"]], "extended": sc["extended"],
               "custom_ranks": sc.get("custom"), "seed": sc["seed"]}
        chk.violation(f"ocf|{sc['kind']}|{';'.join(doc['base'])}|facts={doc['facts']}|ext={sc['extended']}|custom={sc.get('custom')}|{ev.get('ev') if isinstance(ev, dict) else ev}|{json.dumps(ev, default=str)[:200]}",
                      f"{sc['kind']}-ranking object on base {doc['base']} facts {doc['facts']} extended={sc['extended']}: event #{at} {json.dumps(ev, default=str)[:300]} is not allowed by Ocf.tla/InfOCFSem (model: {json.dumps(rj.get('state'))[:300]})",
                      {"kind": "ocf", "scenario": doc, "events": r["events"], "rejected_at": at, "model_state": rj.get("state")})
    return keep


# ----------------------------------------------------------------------------- C18: laws, stateless events
def _exec_laws(items):
    import impl  # noqa: F401
    from inference.preocf import PreOCF, ranks2tpo, tpo2ranks

    out = []
    for (sig, kap, seed) in items:
        rng = random.Random(seed)
        n = len(sig)
        nw = 1 << n
        evs = []
        try:
            mk = lambda: PreOCF.init_custom({wstr(w, n): kap[w - 1] for w in range(1, nw + 1)}, signature=list(sig))
            o = mk()
            for _ in range(3):
                f = M.random_formula(sig, rng.choice([1, 2, 2]), rng, consts=0.1)
                r = o.formula_rank(M.to_pysmt(f))
                evs.append({"ev": "frank", "kap": kap, "worlds": M.models(f, sig), "result": -1 if r is None else int(r), "doc": M.render(f)})
            for _ in range(3):
                c = infer.gen_cond(sig, rng)
                r = o.conditional_acceptance(M.make_conditional(c["B"], c["A"]))
                evs.append({"ev": "accept", "kap": kap, "cond": c["vec"], "result": bool(r), "doc": M.render_cond(c["B"], c["A"])})
            if n >= 2:
                for _ in range(2):
                    k = rng.randint(1, n - 1)
                    drop = rng.sample(list(sig), k)
                    keep = [i + 1 for i, a in enumerate(sig) if a not in drop]
                    m = o.marginalize(drop)
                    res = [(-1 if m.ranks.get(wstr(w, len(keep))) is None else int(m.ranks[wstr(w, len(keep))])) for w in range(1, (1 << len(keep)) + 1)]
                    evs.append({"ev": "marg", "kap": kap, "keep": keep, "natoms": n, "result": res, "doc": {"dropped": drop, "new_signature": list(m.signature)}})
                    if list(m.signature) != [a for a in sig if a not in drop]:
                        evs.append({"ev": "harness-reject", "doc": f"marginalize({drop}) returned signature {m.signature}"})
            for _ in range(2):
                f = M.random_formula(sig, 2, rng, consts=0.1)
                d = mk().compute_conditionalization(M.to_pysmt(f))
                evs.append({"ev": "cond", "kap": kap, "worlds": M.models(f, sig), "result": [[int(w, 2) + 1, int(r)] for w, r in d.items()], "doc": M.render(f)})
            tpo = ranks2tpo(dict(o.ranks))
            vals = sorted(set(kap))
            back_rank = tpo2ranks(tpo, lambda i: vals[i])
            back_id = tpo2ranks(tpo, lambda i: i)
            back_inc = tpo2ranks(tpo, lambda i: 2 * i + 3)
            pj = lambda d: [(-1 if d.get(wstr(w, n)) is None else int(d[wstr(w, n)])) for w in range(1, nw + 1)]
            evs.append({"ev": "tpo", "kap": kap, "layers": [sorted(int(w, 2) + 1 for w in layer) for layer in tpo], "back_rank": pj(back_rank), "back_id": pj(back_id), "back_inc": pj(back_inc)})
        except BaseException as e:
            if isinstance(e, (KeyboardInterrupt, SystemExit)):
                raise
            evs.append({"ev": "harness-reject", "doc": "raised " + type(e).__name__ + ": " + str(e)[:200]})
        out.append({"sig": sig, "kap": kap, "events": evs})
    return out


def run_laws(chk: Check, tier, rng):
    import itertools

    items = []
    for n in (1, 2):
        sig = infer.SIG[:n]
        for kap in itertools.product(range(4), repeat=1 << n):
            items.append((sig, list(kap), rng.randrange(1 << 30)))
    for n, cnt in ((3, 300 if tier == "quick" else 20000), (4, 60 if tier == "quick" else 5000), (5, 0 if tier == "quick" else 800), (6, 0 if tier == "quick" else 150)):
        sig = infer.SIG[:n] if n <= 5 else infer.SIG + ["f"]
        for i in range(cnt):
            if i % 4 == 3:  # large ranks with gaps (two-digit values next to one-digit ones)
                kap = [rng.choice([0, 1, 2, 5, 9, 10, 11, 20, 100]) for _ in range(1 << n)]
            elif i % 2:
                kap = [rng.randrange(5) for _ in range(1 << n)]
            else:  # asymmetric by construction: rank depends on the atoms with distinct weights
                wts = [rng.choice([0, 1, 2, 3, 5]) for _ in range(n)]
                kap = [sum(wt for wt, b in zip(wts, M.world_bits(w, n)) if b) + (rng.randrange(2)) for w in range(1, (1 << n) + 1)]
            items.append((sig, kap, rng.randrange(1 << 30)))
    chunks = [items[i:i + 12] for i in range(0, len(items), 12)]
    results = [r for rs in infer.pool_map(_exec_laws, chunks, chunksize=1) for r in rs]
    events, idx = [], []
    for r in results:
        for e in r["events"]:
            if e["ev"] == "harness-reject":
                chk.violation(f"law/raised|{r['sig']}|{r['kap']}|{e['doc']}", f"ranking {r['kap']} over {r['sig']}: {e['doc']}", {"kind": "law", "ranking": r["kap"], "signature": r["sig"], "detail": e["doc"]})
                continue
            ev = {k: v for k, v in e.items() if k != "doc"}
            ev["nw"] = len(r["kap"])
            events.append(ev)
            idx.append((r, e))
        if len(set(r["kap"])) >= 2:
            chk.nontrivial(["law", r["sig"], r["kap"]])
    chk.add_eval(len(events))
    for rj in infer.validate_events(chk, events, "laws"):
        r, e = idx[rj["reject"] - 1]
        chk.violation(f"law|{e['ev']}|{r['sig']}|{r['kap']}|{json.dumps(e.get('doc'), default=str)}",
                      f"{e['ev']} on ranking {r['kap']} over {r['sig']} ({e.get('doc')}): law requires {rj['exp']}, code gave {e.get('result', e.get('layers'))}",
                      {"kind": "law", "op": e["ev"], "ranking": r["kap"], "signature": r["sig"], "event": e, "expected": rj["exp"]})
    chk.cov["rankings"] = len(items)
    if events:
        chk.sample({"law_event": {k: v for k, v in idx[len(idx) // 2][1].items()}})
