"""C13: answers independent of batching, history and parallel evaluation; one row per query with its own key/text.

The Manager machine (spec/Manager.tla) is model-checked (MC_Manager); histories are then executed on real
InferenceManager objects under the external recorder and every recorded trace is validated by TLC against the same
machine (Trace_Manager); TLC-generated behaviours (simulation of MC_Manager) are replayed as histories as well.
"""
from __future__ import annotations

import json
import os
import random
import re
import tempfile

import model as M
import pysem
import tlc
from common import BUILD, Check, machinery_failure
from drivers import infer

SYS_CONFIGS = [("p", "", False), ("z", "", False), ("w", "rc2", False), ("w", "z3", False), ("l", "rc2", False), ("l", "z3", False),
               ("c", "rc2", False), ("p", "", True), ("z", "", True), ("w", "rc2", True), ("l", "z3", True)]


def gen_scenario(rng, cfg, n_calls, multi_prob, history=None):
    """A base, a pool of queries (two of them with identical text), and a history of calls."""
    s, be, weakly = cfg
    shapes = {"strong"} if not weakly else {"strong", "weak-mixed", "weak-nofin"}
    atoms = rng.choice([2, 3, 3]) if s != "c" else rng.choice([2, 3])
    case = infer.gen_case(rng, atoms, rng.choice([2, 3, 3, 4]), 5, shapes, min_layers=rng.choice([0, 0, 2]) if not weakly else 0)
    if case is None:
        return None
    pool = [(q["B"], q["A"]) for q in case["qs"][:3]]
    # queries over atoms that occur in no conditional of the base (each introduces new SAT variables on the shared manager)
    extra = [a for a in infer.SIG if a not in case["sig"]][:2]
    full = list(case["sig"]) + extra
    lit = lambda names: (M.V(rng.choice(names)) if rng.random() < 0.6 else M.Not(M.V(rng.choice(names))))
    pool.append((lit(extra[:1]), lit(case["sig"])))
    pool.append((lit(extra[1:]), lit(extra[:1])))
    if rng.random() < 0.5:
        q = infer.gen_cond(full, rng)
        pool.append((q["B"], q["A"]))
    rng.shuffle(pool)
    case["sig"] = full
    while len(pool) < 3:
        q = infer.gen_cond(case["sig"], rng)
        pool.append((q["B"], q["A"]))
    pool.append(pool[0])  # same text as pool[0], a different query object with its own key
    if history is None:
        history = []
        for _ in range(n_calls):
            k = rng.choice([1, 2, 2, 3, 3, 4])
            idxs = [rng.randrange(len(pool)) for _ in range(k)]
            if rng.random() < 0.35:
                idxs[-1] = len(pool) - 1
                if 0 not in idxs and k > 1:
                    idxs[0] = 0
            keys = rng.sample(range(0, 12), k)
            multi_ = rng.random() < multi_prob
            history.append({"batch": [[keys[i], idxs[i]] for i in range(k)], "multi": multi_,
                            "delays": [round(rng.choice([0, 0.05, 0.15, 0.3]), 2) for _ in range(k)],
                            # generous budgets that never expire: the answers must not depend on a budget being set (parallel calls: 3 of 4)
                            "budget": rng.choice([None, ["inference_timeout", 60], ["total_timeout", 120], ["inference_timeout", 90]] if multi_ else
                                                 [None, None, ["inference_timeout", 60], ["total_timeout", 120]])})
    else:
        history = [{"batch": [[k, (q - 1) % len(pool)] for k, q in h["batch"]], "multi": h["multi"], "delays": [round(rng.choice([0, 0.1, 0.25]), 2) for _ in h["batch"]],
                    "budget": rng.choice([None, None, ["inference_timeout", 60], ["total_timeout", 120]])} for h in history]
    return {"sig": case["sig"], "base": [(c["B"], c["A"]) for c in case["base"]], "pool": pool, "cfg": list(cfg), "history": history}


def gen_scenario_literals(rng, cfg):
    """Literal sweep: a multi-layer base of literal conditionals over 3 atoms and the pool of ALL conditionals (l|m) between
    literals; long sequential batches on one manager. Consecutive queries then differ in a single literal (x vs y, x vs !x),
    the shape on which state carried from one query to the next (memo tables keyed too coarsely, solver scopes) shows."""
    s, be, weakly = cfg
    sig = list(infer.SIG[:3])
    lits = [M.V(a) for a in sig] + [M.Not(M.V(a)) for a in sig]
    for _ in range(200):
        conds = [(rng.choice(lits), rng.choice(lits)) for _ in range(rng.choice([3, 3, 4]))]
        bv = [M.cond_vec(B, A, sig) for B, A in conds]
        fin, inf = infer.pysem.part(bv)
        if not inf and len(fin) >= 2:
            break
    else:
        return None
    pool = [(b, a) for a in lits for b in lits]
    order = list(range(len(pool)))
    rng.shuffle(order)
    history = []
    for part in (order[:14], order[14:26], order[26:]):
        keys = rng.sample(range(0, 60), len(part))
        history.append({"batch": [[keys[i], part[i]] for i in range(len(part))], "multi": False, "delays": [0] * len(part)})
    return {"sig": sig, "base": conds, "pool": pool, "cfg": list(cfg), "history": history, "literal_sweep": True}


def _exec_scenario(sc):
    import impl
    import tracer
    from inference.inference_manager import InferenceManager
    from inference.queries import Queries

    s, be, weakly = sc["cfg"]
    out = {"sc": sc, "truth": [], "events": [], "error": None}
    try:
        mk = lambda: M.make_base(sc["sig"], {i + 1: c for i, c in enumerate(sc["base"])})
        # reference: each pool query asked alone on a fresh manager
        for qi, c in enumerate(sc["pool"]):
            r = impl.ask(mk(), M.make_queries({1: c}), s, be, weakly)
            if r["raised"] or len(r["obs"]) != 1:
                out["error"] = f"reference run (query alone) failed: {r['exc']}"
                return out
            out["truth"].append(r["obs"][0])
        fd, path = tempfile.mkstemp(prefix="trace_", suffix=".ndjson", dir=os.path.join(BUILD, "traces"))
        os.close(fd)
        tracer.install(path)
        try:
            mgr = InferenceManager(mk(), impl.SYSNAME[s], pmaxsat_solver=be or "rc2", weakly=weakly)
            for call in sc["history"]:
                conds = {}
                for pos, (key, qi) in enumerate(call["batch"]):
                    c = M.make_conditional(*sc["pool"][qi])
                    c._vq = qi + 1
                    c._vdelay = call["delays"][pos] if call["multi"] else 0
                    conds[key] = c
                try:
                    kw = {call["budget"][0]: call["budget"][1]} if call.get("budget") else {}
                    impl.with_limit(300, mgr.inference, Queries(conds), multi_inference=call["multi"], **kw)
                except impl.CallTimeout:
                    tracer.emit({"ev": "harness-timeout", "mid": 1})
                except BaseException as e:
                    if isinstance(e, (KeyboardInterrupt, SystemExit)):
                        raise
        finally:
            tracer.uninstall()
        out["events"] = tracer.read_events(path)
        os.unlink(path)
    except BaseException as e:
        if isinstance(e, (KeyboardInterrupt, SystemExit)):
            raise
        out["error"] = "harness: " + type(e).__name__ + ": " + str(e)[:300]
    return out


def to_trace(res):
    """Events of the single manager of a scenario -> trace record for Trace_Manager."""
    sc = res["sc"]
    evs = []
    for e in res["events"]:
        if e["ev"] == "call":
            evs.append({"ev": "call", "batch": [[b[0], b[1]] for b in e["batch"]], "multi": e["multi"]})
        elif e["ev"] == "instance":
            evs.append({"ev": "instance", "system": e["system"], "backend": e["backend"], "cls": e["cls"]})
        elif e["ev"] == "prep":
            evs.append({"ev": "prep", "outcome": e["outcome"]})
        elif e["ev"] == "answer":
            evs.append({"ev": "answer", "q": e["q"], "result": e["result"], "to": e["to"]})
        elif e["ev"] == "return":
            evs.append({"ev": "return", "rows": e["rows"], "children": e["children"], **({"cfg": e["cfg"], "cols": e["cols"]} if "cfg" in e else {})})
        elif e["ev"] == "raise":
            evs.append({"ev": "raise", "exc": e["exc"], "children": e.get("children", 0)})
        elif e["ev"] == "new":
            continue
        else:
            evs.append({"ev": e["ev"], "info": e.get("exc", "")})
    texts = [M.render_cond(*c) for c in sc["pool"]]
    return {"env": {"truth": res["truth"], "text": texts, "cons": True}, "events": evs}


def validate_traces(chk: Check, traces, tag, module="Trace_Manager", constants=None, invariants=("TraceRowsOK", "TraceNoLeak")):
    if not traces:
        return []
    os.makedirs(os.path.join(BUILD, "in"), exist_ok=True)
    tf = os.path.join(BUILD, "in", f"{chk.prop}_{tag}.json")
    with open(tf, "w") as f:
        json.dump(traces, f)
    cfg = tlc.cfg_text(spec="TraceSpec", invariants=list(invariants), constants=constants or {"Plumbing": "byIndex"})
    res = tlc.run(module, cfg, f"{chk.prop}_{tag}", env={"TRACE_FILE": tf}, timeout=1800, extra_args=["-continue"])
    if res.error and res.error != "timeout" and res.violated is None and "Invariant" not in res.out:
        tlc.require_ok(res, module)
    accepted = {p["accept"] for p in res.prints if "accept" in p}
    rejects = [p for p in res.prints if "reject" in p]
    inv = []
    # invariant violations (with -continue TLC reports each and goes on): find the trace number in the last state printed
    for block in res.out.split("Error: Invariant ")[1:]:
        name = block.split(" ", 1)[0]
        ts = re.findall(r"/\\ t = (\d+)", block.split("Error:")[0])
        if ts:
            inv.append({"reject": int(ts[-1]), "at": -1, "event": f"invariant {name} violated", "state": {}})
    done = accepted | {r["reject"] for r in rejects} | {r["reject"] for r in inv}
    if len(done) != len(traces):
        machinery_failure(f"{module}: {len(done)} of {len(traces)} traces reached a verdict\n{res.out[-2000:]}")
    chk.add_tlc(f"{module}:{tag}", res, f"{len(traces)} recorded traces, {sum(len(t.get('events', t.get('steps', []))) for t in traces)} events")
    chk.add_traces(len(traces))
    return rejects + inv


def sim_histories(chk: Check, rng, n, tier):
    """Path G: behaviours of MC_Manager generated by TLC's simulator, reduced to their CallStart steps."""
    cfg = tlc.cfg_text(invariants=["RowsOK", "NoLeak"], constants={"Plumbing": "byIndex", "MaxCalls": 3, "MaxBatch": 3, "Keys": {0, 3, 5, 11}, "Cons": True})
    simdir = os.path.join(BUILD, "sim_C13")
    import shutil

    shutil.rmtree(simdir, ignore_errors=True)
    os.makedirs(simdir, exist_ok=True)
    res = tlc.run("MC_Manager", cfg, "C13_sim", workers=1, timeout=600,
                  extra_args=["-simulate", f"file={simdir}/b,num={n}", "-depth", "30", "-seed", str(rng.randrange(1 << 30))])
    hist = []
    for fn in sorted(os.listdir(simdir)):
        txt = open(os.path.join(simdir, fn)).read()
        calls = []
        # a CallStart step is visible as a state with pc = "prep": read batch and multi there
        for st in txt.split("STATE_")[1:]:
            if '/\\ pc = "prep"' in st or 'pc = "prep"' in st:
                mb = re.search(r"batch = <<(.*?)>>\s*(?:/\\|$)", st, re.S)
                mm = re.search(r"multi = (TRUE|FALSE)", st)
                if mb and mm:
                    items = re.findall(r"\[key \|-> (\d+), q \|-> (\d+)\]", mb.group(1))
                    calls.append({"batch": [[int(k), int(q)] for k, q in items], "multi": mm.group(1) == "TRUE"})
        if calls:
            hist.append(calls)
    shutil.rmtree(simdir, ignore_errors=True)
    chk.cov["tlc_simulated_behaviours"] = len(hist)
    return hist


def repo_test_traces(chk: Check, tier: str):
    """Run the repository's own tests under the recorder and turn every manager's events into a trace.
    The tests do not tag their queries, so a query is identified by its text and its reference answer is the first
    answer recorded for that text on that manager: the trace then checks row plumbing, submission order, single
    preprocessing, history independence of repeated texts and absence of leftover workers."""
    import subprocess
    import sys

    import tracer
    from common import REPO, VERIF

    os.makedirs(os.path.join(BUILD, "traces"), exist_ok=True)
    path = os.path.join(BUILD, "traces", f"repo_tests_{chk.prop}.ndjson")
    if os.path.exists(path):
        os.unlink(path)
    env = dict(os.environ)
    env.update({"INFOCF_VERIF": "1", "INFOCF_TRACE_FILE": path, "PYTHONPATH": os.path.join(VERIF, "harness") + ":" + REPO, "INFOCF_LOGLEVEL": "ERROR"})
    sel = [] if tier == "thorough" else ["--deselect", "unittests/test_correctness.py"]
    p = subprocess.run([sys.executable, "-m", "pytest", "-q", "-p", "no:cacheprovider", "-p", "infocf_tracer_plugin", "--timeout=900", "unittests"] + sel,
                       cwd=REPO, env=env, capture_output=True, text=True, timeout=1500)
    chk.cov["repo_tests_summary"] = (p.stdout.strip().splitlines() or ["?"])[-1][:200]
    if not os.path.exists(path):
        machinery_failure("recorder produced no trace file while running the repository's tests:\n" + (p.stdout + p.stderr)[-800:])
    events = tracer.read_events(path)
    os.unlink(path)
    by = {}
    for e in events:
        if "mid" in e:
            by.setdefault((e["pid"] if e["ev"] == "new" else None, e["mid"]), [])
    # managers are numbered per process; worker events carry the parent's number (fork), so group by mid and creation order
    groups, cur = {}, {}
    for e in events:
        mid = e.get("mid")
        if mid is None:
            continue
        if e["ev"] == "new":
            cur[mid] = cur.get(mid, 0) + 1
        groups.setdefault((mid, cur.get(mid, 0)), []).append(e)
    traces, docs = [], []
    for key, evs in groups.items():
        if not any(e["ev"] == "call" for e in evs):
            continue
        texts, truth = [], {}
        qid = {}
        for e in evs:
            if e["ev"] == "call":
                for b in e["batch"]:
                    if b[2] not in qid:
                        qid[b[2]] = len(qid) + 1
                        texts.append(b[2])
            elif e["ev"] == "answer" and e["text"] in qid and qid[e["text"]] not in truth and not e["to"]:
                truth[qid[e["text"]]] = e["result"]
        refused = any(e["ev"] == "prep" and e["outcome"] == "refuse" for e in evs)
        tr = []
        for e in evs:
            if e["ev"] == "call":
                tr.append({"ev": "call", "batch": [[b[0], qid[b[2]]] for b in e["batch"]], "multi": e["multi"]})
            elif e["ev"] == "instance":
                tr.append({"ev": "instance", "system": e["system"], "backend": e["backend"], "cls": e["cls"]})
            elif e["ev"] == "prep":
                tr.append({"ev": "prep", "outcome": e["outcome"]})
            elif e["ev"] == "answer":
                tr.append({"ev": "answer", "q": qid.get(e["text"], 0), "result": e["result"], "to": e["to"]})
            elif e["ev"] == "return":
                tr.append({"ev": "return", "rows": e["rows"], "children": e["children"], **({"cfg": e["cfg"], "cols": e["cols"]} if "cfg" in e else {})})
            elif e["ev"] == "raise":
                tr.append({"ev": "raise", "exc": e["exc"]})
            elif e["ev"] != "new":
                tr.append({"ev": e["ev"]})
        traces.append({"env": {"truth": [truth.get(i + 1, "F") for i in range(len(texts))], "text": texts, "cons": not refused}, "events": tr})
        new = next((e for e in evs if e["ev"] == "new"), {})
        docs.append({"system": new.get("system"), "backend": new.get("backend"), "weakly": new.get("weakly"), "queries": texts[:5]})
    chk.cov["repo_test_managers_traced"] = len(traces)
    for rj in validate_traces(chk, traces, "repotests"):
        d = docs[rj["reject"] - 1]
        ev = rj.get("event")
        chk.violation(f"manager/repo-tests|{json.dumps(d)}|at={rj.get('at')}|{json.dumps(ev)[:150]}",
                      f"trace of a manager created by the repository's own tests ({d}) is not a behaviour of Manager.tla: event #{rj.get('at')} {json.dumps(ev)[:300]} in state {rj.get('state')}",
                      {"kind": "manager-repo-tests", "manager": d, "trace": traces[rj["reject"] - 1]["events"][:60], "rejected_at": rj.get("at")})
    return len(traces)


def run(chk: Check, tier: str):
    rng = random.Random(chk.seed)
    os.makedirs(os.path.join(BUILD, "traces"), exist_ok=True)
    # ---- the machine itself
    for plumb, cons, expect_violation in (("byIndex", True, False), ("byIndex", False, False), ("byText", True, True)):
        cfg = tlc.cfg_text(spec="FairSpec" if plumb == "byIndex" else "Spec", invariants=["RowsOK", "NoLeak", "NeverRaiseIfCons", "AlwaysRaiseIfNot"],
                           properties=["PrepMonotone"] + (["CallTerminates"] if plumb == "byIndex" else []),
                           constants={"Plumbing": plumb, "MaxCalls": (2 if tier == "quick" else 3) if plumb == "byIndex" else 1, "MaxBatch": 2 if tier == "quick" else 3, "Keys": {0, 5, 7}, "Cons": cons})
        res = tlc.run("MC_Manager", cfg, f"C13_mc_{plumb}_{cons}", timeout=3000)
        if expect_violation:
            if res.violated != "RowsOK":
                machinery_failure("MC_Manager: the text-keyed plumbing variant does not violate RowsOK: the invariant is vacuous")
            chk.cov["wrong_variant_detected"] = "byText violates RowsOK"
        else:
            if res.violated:
                machinery_failure(f"MC_Manager: {res.violated} violated by the specification itself\n{res.out[-2000:]}")
            tlc.require_ok(res, "MC_Manager")
            chk.add_tlc(f"MC_Manager:{plumb}:cons={cons}", res, "all call histories within the bounds, all completion orders")
    # ---- unbounded companion of RowsOwnKey for the by-index plumbing, proved by the TLA+ proof system
    import tlaps

    for mod in ("ManagerLemma", "ManagerProof"):
        pr = tlaps.prove(mod)
        chk.cov["tlaps_" + mod] = {k: pr[k] for k in ("available", "proved", "refuted", "obligations", "wall_s")}
        if pr["refuted"]:
            chk.assumptions.append("tlapm did not re-prove every obligation of a proof module in this run (recorded under coverage.tlaps_*); the TLC results do not depend on it")
    # ---- histories on real managers
    n_rand = 240 if tier == "quick" else 2400
    scen = []
    for i in range(n_rand):
        cfg = SYS_CONFIGS[i % len(SYS_CONFIGS)]
        sc = gen_scenario(rng, cfg, rng.choice([2, 3, 3, 4]), multi_prob=0.25)
        if sc:
            scen.append(sc)
    lit_cfgs = [c for c in SYS_CONFIGS if c[0] in ("w", "l", "c", "z") and not c[2]]
    for i in range(len(lit_cfgs) * (2 if tier == "quick" else 12)):
        sc = gen_scenario_literals(rng, lit_cfgs[i % len(lit_cfgs)])
        if sc:
            scen.append(sc)
    chk.cov["literal_sweeps"] = sum(1 for x in scen if x.get("literal_sweep"))
    for i, h in enumerate(sim_histories(chk, rng, 60 if tier == "quick" else 600, tier)):
        sc = gen_scenario(rng, SYS_CONFIGS[i % len(SYS_CONFIGS)], 0, 0, history=h)
        if sc:
            sc["from_tlc"] = True
            scen.append(sc)
    results = infer.pool_map(_exec_scenario, scen, chunksize=1)
    traces, keep = [], []
    invalid = 0
    for r in results:
        if r["error"]:
            invalid += 1
            if r["error"].startswith("reference run"):
                chk.violation("manager/reference|" + json.dumps(r["sc"]["cfg"]) + "|" + ";".join(M.render_cond(*c) for c in r["sc"]["base"]),
                              f"{r['sc']['cfg']}: {r['error']}", {"kind": "manager", "scenario": _doc(r["sc"]), "error": r["error"]})
            else:
                machinery_failure(r["error"])
            continue
        traces.append(to_trace(r))
        keep.append(r)
    # which completion orders of parallel calls were actually observed (positions of the answers relative to submission order)
    orders = set()
    for r in keep:
        evs = r["events"]
        i = 0
        while i < len(evs):
            if evs[i]["ev"] == "call" and evs[i]["multi"]:
                sub = [b[1] for b in evs[i]["batch"]]
                got = []
                j = i + 1
                while j < len(evs) and evs[j]["ev"] not in ("return", "raise"):
                    if evs[j]["ev"] == "answer":
                        got.append(evs[j]["q"])
                    j += 1
                if len(sub) >= 2 and len(set(sub)) == len(sub) and sorted(sub) == sorted(got):
                    orders.add(tuple(sub.index(q) for q in got))
                i = j
            i += 1
    chk.cov["parallel_completion_orders_observed"] = sorted(map(list, orders))[:40]
    chk.cov["parallel_completion_orders_distinct"] = len(orders)
    chk.cov["scenarios"] = len(scen)
    chk.cov["scenarios_invalid"] = invalid
    chk.add_eval(sum(len(c["batch"]) for r in keep for c in r["sc"]["history"]))
    for r in keep:
        sc = r["sc"]
        dup = any(len({M.render_cond(*sc["pool"][qi]) for _, qi in c["batch"]}) < len(c["batch"]) for c in sc["history"])
        if len(sc["history"]) >= 2 or dup or any(c["multi"] for c in sc["history"]):
            chk.nontrivial(["m", sc["cfg"], [M.render_cond(*c) for c in sc["base"]], sc["history"]])
    for rj in validate_traces(chk, traces, "traces"):
        r = keep[rj["reject"] - 1]
        sc = r["sc"]
        ev = rj.get("event")
        at = rj.get("at")
        what = ev["ev"] if isinstance(ev, dict) else str(ev)
        # fingerprint: configuration, the shape of the failing step, not the concrete base
        chk.violation(f"manager|{sc['cfg']}|{';'.join(M.render_cond(*c) for c in sc['base'])}|{json.dumps(sc['history'])}|at={at}",
                      f"{sc['cfg']}: recorded trace is not a behaviour of Manager.tla: event #{at} {json.dumps(ev)[:300]} cannot be matched in state {rj.get('state')}",
                      {"kind": "manager", "scenario": _doc(sc), "truth_when_asked_alone": r["truth"], "trace": to_trace(r)["events"], "rejected_at": at, "model_state": rj.get("state")})
    repo_test_traces(chk, tier)
    chk.cov["rule"] = (
        "MC_Manager: all histories of <= 2 (3) calls, batches <= 2 (3) from a pool of 4 queries (two with equal text), all distinct-key assignments over 3 keys, sequential and parallel "
        "with every completion order; the as-originally-coded text-keyed plumbing variant must violate RowsOwnKey (non-vacuity). Real code: seeded scenarios per operator/back-end/mode "
        "(base over 2-3 atoms, pool of 4-5 queries incl. two with identical text, histories of 2-4 calls, arbitrary integer keys, 25% parallel calls with per-query delays to vary completion order) "
        "and histories taken from TLC-simulated behaviours of MC_Manager; every run is recorded by the external tracer (call, prep, answer, return/raise; live child processes at return) and "
        "validated by TLC against Manager.tla with truth = the answer of each query asked alone on a fresh manager. The repository's own tests (quick: all but test_correctness) run under the same recorder as a pytest plugin; every manager they create "
        "becomes a trace validated the same way (queries identified by text). Non-trivial = scenario with >= 2 calls, a parallel call, or duplicate texts in a batch."
    )
    chk.assumptions += ["the reference answer of a query is the one it gets alone on a fresh manager (C01-C05/C07 relate that to the semantics)",
                        "completion orders of worker processes are influenced by delays, not enumerated"]
    if keep:
        chk.sample({"scenario": _doc(keep[0]["sc"]), "trace_events": to_trace(keep[0])["events"][:8]})
    return chk.finish()


def _doc(sc):
    return {"config": sc["cfg"], "signature": sc["sig"], "base": [M.render_cond(*c) for c in sc["base"]], "pool": [M.render_cond(*c) for c in sc["pool"]],
            "history": sc["history"], "from_tlc_simulation": bool(sc.get("from_tlc"))}
