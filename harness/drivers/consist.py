"""C06: consistency verdicts, tolerance partitions (object- and key-based variants), diagnostics flags, refusal."""
from __future__ import annotations

import random

import model as M
import pysem
from common import Check
from drivers import infer


def _part_to_keys(part, bb):
    """Map the object-based partition back to keys by object identity."""
    if part is False:
        return False
    ident = {id(c): k for k, c in bb.conditionals.items()}
    return [[ident.get(id(c), -1) for c in layer] for layer in part]


def _exec_part(args):
    case, want_diag, fact_sets = args
    import impl
    from inference.consistency_sat import consistency, consistency_indices

    sig = case["sig"]
    conds = [(c["B"], c["A"]) for c in case["base"]]
    out = {"parts": [], "diags": []}
    for weakly in (False, True):
        for variant in ("objects", "keys"):
            try:
                # API-built bases are stored under a content-determined key layout (0-based, shifted, gaps, descending, ...);
                # the recorded partition speaks about positions, so keys are mapped back (an unknown key becomes -key-1000)
                keys = infer.key_layout(case) if conds else None
                bb = impl.build_base(sig, conds, via=case["via"], keys=keys) if conds else _empty_base(sig)
                if variant == "objects":
                    p = _part_to_keys(impl.with_limit(120, consistency, bb, "z3", weakly)[0], bb)
                else:
                    p = impl.with_limit(120, consistency_indices, bb, "z3", weakly)[0]
                if keys and p not in (False, None):
                    kpos = {k: i + 1 for i, k in enumerate(keys)}
                    p = [[kpos.get(k, -1000 - k if isinstance(k, int) else -1) for k in layer] for layer in p]
                exc = None
            except BaseException as e:
                if isinstance(e, (KeyboardInterrupt, SystemExit)):
                    raise
                p, exc = None, type(e).__name__ + ": " + str(e)[:200]
            out["parts"].append({"weakly": weakly, "variant": variant, "part": p, "exc": exc})
    if want_diag:
        from inference.consistency_diagnostics import consistency_diagnostics

        for facts in fact_sets:
            for extended in (False, True):
                for uses in (False, True):
                    if uses and not facts:
                        continue
                    if not uses and facts:
                        continue
                    try:
                        bb = impl.build_base(sig, conds, via="api", keys=infer.key_layout(dict(case, via="api"))) if conds else _empty_base(sig)
                        ftexts = [(M.render(f) if i % 2 else M.to_pysmt(f)) for i, f in enumerate(facts)]
                        d = impl.with_limit(
                            120, consistency_diagnostics, bb, extended=extended, uses_facts=uses, facts=ftexts or None, on_inconsistent="silent"
                        )
                        exc = None
                    except BaseException as e:
                        if isinstance(e, (KeyboardInterrupt, SystemExit)):
                            raise
                        d, exc = None, type(e).__name__ + ": " + str(e)[:200]
                    out["diags"].append({"facts": facts, "extended": extended, "uses": uses, "diag": _proj_diag(d), "exc": exc})
    return out


def _empty_base(sig):
    from inference.belief_base import BeliefBase

    return BeliefBase(list(sig), {}, "empty")


def _t3(x):
    return "N" if x is None else ("T" if x else "F")


def _proj_diag(d):
    if d is None:
        return None
    return {
        "facts": _t3(d.get("facts_consistent")),
        "base": _t3(d.get("belief_base_consistent")),
        "weak": _t3(d.get("belief_base_weakly_consistent")),
        "comb": _t3(d.get("combination_consistent")),
        "grew": _t3(d.get("combination_infinity_increase")),
    }


def gen_any_case(rng, atoms, nconds, nq=4):
    sig = infer.SIG[:atoms]
    base = [infer.gen_cond(sig, rng) for _ in range(nconds)]
    qs = [infer.gen_cond(sig, rng) for _ in range(nq)]
    # distinct texts
    seen, q2 = set(), []
    for q in qs:
        t = M.render_cond(q["B"], q["A"])
        if t not in seen:
            seen.add(t)
            q2.append(q)
    return {"sig": sig, "base": base, "qs": q2, "via": "parser" if (rng.random() < 0.3 and base) else "api"}


def gen_facts(sig, rng):
    k = rng.choice([1, 1, 2])
    out = []
    for _ in range(k):
        r = rng.random()
        if r < 0.5:
            a = M.V(rng.choice(sig))
            out.append(a if rng.random() < 0.5 else M.Not(a))
        elif r < 0.9:
            out.append(M.random_formula(sig, 1, rng, consts=0.0))
        else:
            out.append(M.random_formula(sig, 2, rng, consts=0.1))
    return out


def run(chk: Check, tier: str):
    rng = random.Random(chk.seed)
    infer.verify_theorems(chk, ["ModelsExist", "ZModel"], tier, rng)
    # the layer loop as a state machine: with push/pop it computes Part(B) for every base of the universe; a forgotten pop does not
    import tlc
    from common import machinery_failure

    for disc, want_violation in (("pushpop", False), ("nopop", True)):
        res = tlc.run("MC_TolLoop", tlc.cfg_text(invariants=["LoopRefinesPart"], constants={"Discipline": disc, "NW": 4, "MaxB": 2}), f"C06_tol_{disc}", timeout=1800)
        if want_violation:
            if res.violated != "LoopRefinesPart":
                machinery_failure("MC_TolLoop: the no-pop variant does not violate LoopRefinesPart (vacuous)")
            chk.cov["wrong_variant_detected"] = "TolLoop without pop violates LoopRefinesPart"
        else:
            if res.violated:
                machinery_failure(f"MC_TolLoop: {res.violated} violated by the specification itself")
            tlc.require_ok(res, "MC_TolLoop")
            chk.add_tlc("MC_TolLoop", res, "layer loop = Part(B) for every base of <=2 conditionals over 2 atoms, both modes")
    # ---- path G: every base of <=2 conditionals over 2 atoms, both modes, both variants
    # quick: every base of <= 2 conditionals; thorough: every base of <= 3 conditionals (91 881 more), partitions only
    rows = infer.gen_vectors(chk, maxb=(2 if tier == "quick" else 3), with_c=False, with_ans=False)
    tasks, meta = [], []
    for row in rows:
        sig = ["a", "b"]
        r2 = random.Random(rng.randrange(1 << 30))
        base = []
        for i in row["b"]:
            vec = M.cond_from_index(i, 4)
            B, A = M.present(vec, sig, r2)
            base.append({"vec": vec, "B": B, "A": A})
        case = {"sig": sig, "base": base, "qs": [], "via": "parser" if r2.random() < 0.25 else "api"}
        tasks.append((case, False, []))
        meta.append(row)
    results = infer.pool_map(_exec_part, tasks, chunksize=16)
    for row, (case, _, _), out in zip(meta, tasks, results):
        fin = [set(l) for l in row["fin"]]
        inf = set(row["inf"])
        for p in out["parts"]:
            if p["weakly"]:
                exp = (fin + [inf]) if row["weak"] else False
            else:
                exp = fin if row["strong"] else False
            obs = p["part"]
            obs_n = False if obs is False else (None if obs is None else [set(l) for l in obs])
            chk.add_eval()
            if obs_n != exp or (obs not in (False, None) and any(len(set(l)) != len(l) for l in obs)):
                bv = infer.vecs(case["base"])
                fp = f"partition/{p['variant']}/{'ext' if p['weakly'] else 'strict'}|base={','.join(sorted(''.join(map(str, v)) for v in bv))}"
                chk.violation(fp, f"consistency ({p['variant']}, weakly={p['weakly']}) on {[M.render_cond(c['B'], c['A']) for c in case['base']]}: spec {exp}, code {obs} {p['exc'] or ''}",
                              {"kind": "partition", "variant": p["variant"], "weakly": p["weakly"], "signature": case["sig"], "base": [M.render_cond(c["B"], c["A"]) for c in case["base"]],
                               "expected": str(exp), "observed": str(obs), "exception": p["exc"]})
        if len(row["fin"]) >= 2 or (row["inf"] and row["fin"]):
            chk.nontrivial(["g", row["b"]])
    chk.add_traces(len(tasks))
    # ---- path T: sampled bases of any shape over 2-4 atoms incl. the empty base; partitions + diagnostics validated by TLC
    n = 600 if tier == "quick" else 8000
    cases, tasks = [], []
    for i in range(n):
        atoms = rng.choice([2, 2, 3, 3, 3, 4])
        nconds = rng.choice([0, 1, 2, 3, 3, 4, 4, 5, 6]) if i % 40 else 0
        case = gen_any_case(rng, atoms, nconds)
        facts = [gen_facts(case["sig"], rng) for _ in range(2)] + [[]]
        cases.append(case)
        tasks.append((case, True, facts))
    results = infer.pool_map(_exec_part, tasks, chunksize=4)
    events, idx = [], []
    for ci, (case, out) in enumerate(zip(cases, results)):
        nw = 1 << len(case["sig"])
        bv = infer.vecs(case["base"])
        shape = pysem.shape(bv)
        if shape in ("weak-mixed", "weak-nofin", "inconsistent") or len(pysem.part(bv)[0]) >= 2:
            chk.nontrivial(["t", bv])
        bkey0 = ",".join(sorted("".join(map(str, v)) for v in bv))
        for p in out["parts"]:
            if p["part"] is None:  # the consistency test itself raised: never allowed
                chk.violation(f"partition/{p['variant']}/{'ext' if p['weakly'] else 'strict'}|base={bkey0}|raised",
                              f"consistency ({p['variant']}, weakly={p['weakly']}) raised {p['exc']} on {infer.case_texts(case)['base']}",
                              {"kind": "part", "case": infer.case_texts(case), "exception": p["exc"]})
                continue
            ok = p["part"] is not False
            events.append({"ev": "partition", "nw": nw, "base": bv, "weakly": p["weakly"], "ok": ok, "layers": p["part"] if ok else []})
            idx.append((ci, "part", p))
        for d in out["diags"]:
            fsets = [M.models(f, case["sig"]) for f in d["facts"]]
            if d["diag"] is None:
                chk.violation(f"diag/ext={d['extended']}/facts={d['uses']}|base={bkey0}|raised",
                              f"consistency_diagnostics raised {d['exc']} on {infer.case_texts(case)['base']} facts {[M.render(f) for f in d['facts']]}",
                              {"kind": "diag", "case": infer.case_texts(case), "exception": d["exc"], "facts": [M.render(f) for f in d["facts"]]})
                continue
            events.append({"ev": "diag", "nw": nw, "base": bv, "facts": fsets, "extended": d["extended"], "uses_facts": d["uses"], "flags": d["diag"]})
            idx.append((ci, "diag", d))
    rejects = infer.validate_events(chk, events, "consist")
    chk.add_eval(len(events))
    for rj in rejects:
        ci, kind, rec = idx[rj["reject"] - 1]
        case = cases[ci]
        bv = infer.vecs(case["base"])
        bkey = ",".join(sorted("".join(map(str, v)) for v in bv))
        if kind == "part":
            fp = f"partition/{rec['variant']}/{'ext' if rec['weakly'] else 'strict'}|base={bkey}"
            summ = f"consistency ({rec['variant']}, weakly={rec['weakly']}): spec {rj['exp']}, code {rj['obs']} {rec['exc'] or ''}"
        else:
            fkey = ";".join(",".join(map(str, M.models(f, case["sig"]))) for f in rec["facts"])
            fp = f"diag/ext={rec['extended']}/facts={rec['uses']}|base={bkey}|facts={fkey}"
            summ = f"consistency_diagnostics(extended={rec['extended']}, uses_facts={rec['uses']}, facts={[M.render(f) for f in rec['facts']]}): spec {rj['exp']}, code {rj['obs']} {rec['exc'] or ''}"
        chk.violation(fp, summ + f" on base {[M.render_cond(c['B'], c['A']) for c in case['base']]}",
                      {"kind": kind, "record": {k: (v if k != "facts" else [M.render(f) for f in v]) for k, v in rec.items()}, "case": infer.case_texts(case), "expected": rj["exp"], "observed": rj["obs"]})
    # ---- refusal: every operator x back-end x mode on bases that are empty or inconsistent for the mode (and answers otherwise)
    import impl

    rcases = [c for c in cases if pysem.shape(infer.vecs(c["base"])) in ("empty", "inconsistent", "weak-nofin", "weak-mixed") and c["qs"]]
    rcases = rcases[: (60 if tier == "quick" else 600)]
    for c in rcases:
        if not c["base"]:
            c["via"] = "api"
    configs = infer.configs_for(["p", "z", "w", "l", "c"], [False, True])
    infer.run_sampled(chk, rcases, configs, tag="refusal", nontrivial=lambda f: False)
    chk.cov["refusal_cases"] = len(rcases)
    chk.cov["exhaustive"] = True
    chk.cov["rule"] = (
        "path G: every multiset of <=2 (thorough: <=3, 95 283 bases) semantic conditionals over 2 atoms, all consistency shapes, x {strict, extended} x "
        "{consistency, consistency_indices}: returned partition compared as a sequence of key sets with Part(B) emitted by TLC. path T: seeded bases "
        "over 2-4 atoms with 0-6 conditionals (every 40th the empty base): both variants and modes, plus consistency_diagnostics for fact lists of "
        "1-2 formulas in all (extended, uses_facts) modes, validated by TLC (Trace_Ops partition/diag events); refusal: every operator x back-end x mode "
        "on the sampled bases that are empty / inconsistent / only weakly consistent must raise exactly when the spec's PrepRefuse condition holds. "
        "Non-trivial = base with >=2 finite layers, or a non-empty infinity layer, or inconsistent."
    )
    chk.assumptions += ["oracle = Part/Strong/Weak/Augment/Diag* of InfOCFSem.tla", "order of conditionals inside a layer is not compared"]
    if cases:
        chk.sample({"path": "T", "signature": cases[1]["sig"], "base": infer.case_texts(cases[1])["base"], "events": ["partition x4", "diag x (facts, modes)"]})
    return chk.finish()
