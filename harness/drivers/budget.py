"""C14: time budgets never produce an unflagged wrong answer.

Fault enumeration on the real code, from outside: a virtual clock replaces the clock the Deadline helper reads
(inference.deadline.perf_counter) and the timing clock (perf_counter_ns); the k-th read of the deadline clock can be
made to jump past every deadline, and the k-th z3 Optimize.check can be made to return `unknown`. A dry run counts
the observation points of a scenario; then EVERY k is injected in turn. Each faulted call is followed by an
un-budgeted call on the same manager; the recorded traces are validated by TLC against Budget.tla.
"""
from __future__ import annotations

import json
import os
import random
import tempfile

import model as M
import tlc
from common import BUILD, Check, machinery_failure
from drivers import infer, manager

CONFIGS = [("w", "rc2", False), ("l", "rc2", False), ("c", "rc2", False), ("w", "z3", False), ("l", "z3", False), ("p", "", False), ("z", "", False),
           ("w", "rc2", True), ("l", "z3", True), ("w", "z3", True)]


class VClock:
    def __init__(self):
        self.now = 1000.0
        self.reads = 0
        self.jump_at = None
        self.jumped = False

    def perf_counter(self):
        self.reads += 1
        if self.jump_at is not None and self.reads == self.jump_at:
            self.now += 1.0e6
            self.jumped = True
        self.now += 1.0e-6
        return self.now

    def perf_counter_ns(self):
        return int(self.now * 1e9)

    def advance(self, seconds):
        self.now += seconds


class Faults:
    """Installs the virtual clock, the Optimize.check interposer, the Deadline logger and the preprocessing delay."""

    def __init__(self, jump_at=None, unknown_at=None, prep_delay=0.0):
        self.clock = VClock()
        self.clock.jump_at = jump_at
        self.unknown_at = unknown_at
        self.checks = 0
        self.injected_unknown = False
        self.prep_delay = prep_delay
        self.active = True
        self._undo = []

    def __enter__(self):
        import z3

        import tracer
        from inference import c_inference, deadline, inference as inf_mod, lex_inf, lex_inf_z3, p_entailment, system_w, system_w_z3, system_z, tseitin_transformation

        f = self

        def patch(obj, name, new):
            self._undo.append((obj, name, getattr(obj, name)))
            setattr(obj, name, new)

        patch(deadline, "perf_counter", lambda: f.clock.perf_counter())
        for mod in (inf_mod, c_inference, tseitin_transformation):
            if hasattr(mod, "perf_counter_ns"):
                patch(mod, "perf_counter_ns", lambda: f.clock.perf_counter_ns())
        o_check = z3.Optimize.check

        def w_check(self_, *a):
            if not f.active:
                return o_check(self_, *a)
            f.checks += 1
            if f.unknown_at is not None and f.checks == f.unknown_at:
                f.injected_unknown = True
                return z3.unknown
            return o_check(self_, *a)

        patch(z3.Optimize, "check", w_check)
        o_from = deadline.Deadline.from_duration

        def w_from(seconds):
            if f.active:
                tracer.emit({"ev": "dl", "ms": int(round(seconds * 1000))})
            return o_from(seconds)

        patch(deadline.Deadline, "from_duration", staticmethod(w_from))
        for cls in (p_entailment.PEntailment, system_z.SystemZ, system_w.SystemW, system_w_z3.SystemWZ3, lex_inf.LexInf, lex_inf_z3.LexInfZ3, c_inference.CInference):
            o = cls._preprocess_belief_base

            def w_pre(self_, weakly, dl, _o=o):
                if f.active and f.prep_delay:
                    f.clock.advance(f.prep_delay)
                return _o(self_, weakly, dl)

            patch(cls, "_preprocess_belief_base", w_pre)
        return self

    def __exit__(self, *a):
        for obj, name, old in reversed(self._undo):
            setattr(obj, name, old)


def gen_scenario(rng, cfg):
    s, be, weakly = cfg
    shapes = {"strong"} if not weakly else {"weak-mixed", "strong"}
    case = infer.gen_case(rng, rng.choice([3, 3, 4]) if s != "c" else 3, rng.choice([3, 4, 5]) if s != "c" else rng.choice([3, 4]), 3, shapes, min_layers=2 if s in ("w", "l") else 0)
    if case is None or len(case["qs"]) < 2:
        return None
    total, prep, per = rng.choice([(5, 0, 0), (0, 0, 2), (5, 2, 2), (9, 3, 0), (0, 4, 3), (6, 6, 6)])
    return {"sig": case["sig"], "base": [(c["B"], c["A"]) for c in case["base"]], "pool": [(q["B"], q["A"]) for q in case["qs"][:3]], "cfg": list(cfg),
            "budgets": [total, prep, per],
            # virtual duration of preprocessing: below, near and ABOVE the total budget (the remaining query budget then is negative)
            "prep_delay": rng.choice([0.0, 0.0, 0.4, 1.0, 7.0, 12.0])}


def _run_once(sc, jump_at, unknown_at, path, multi=False, with_budget=True):
    """One faulted (or dry) execution: call 1 under budgets with the fault armed, call 2 without budgets or faults."""
    import impl
    import tracer
    from inference.inference_manager import InferenceManager
    from inference.queries import Queries

    s, be, weakly = sc["cfg"]
    info = {"reads": 0, "checks": 0, "jumped": False, "unknown": False}
    tracer.install(path)
    try:
        with Faults(jump_at, unknown_at, sc["prep_delay"]) as f:
            mgr = InferenceManager(M.make_base(sc["sig"], {i + 1: c for i, c in enumerate(sc["base"])}), impl.SYSNAME[s], pmaxsat_solver=be or "rc2", weakly=weakly)

            def batch():
                conds = {}
                for i, c in enumerate(sc["pool"]):
                    cc = M.make_conditional(*c)
                    cc._vq = i + 1
                    conds[i + 1] = cc
                return Queries(conds)

            t, p, q = sc["budgets"] if with_budget else (0, 0, 0)
            try:
                impl.with_limit(300, mgr.inference, batch(), total_timeout=t, preprocessing_timeout=p, inference_timeout=q, multi_inference=multi)
            except impl.CallTimeout:
                tracer.emit({"ev": "harness-timeout"})
            except BaseException as e:
                if isinstance(e, (KeyboardInterrupt, SystemExit)):
                    raise
            info.update(reads=f.clock.reads, checks=f.checks, jumped=f.clock.jumped, unknown=f.injected_unknown)
            f.active = False  # follow-up call: no budgets, no faults, no logging of deadlines
            f.clock.jump_at = None
            f.unknown_at = None
            try:
                impl.with_limit(300, mgr.inference, batch())
            except BaseException as e:
                if isinstance(e, (KeyboardInterrupt, SystemExit)):
                    raise
    finally:
        tracer.uninstall()
    return info


def _exec_scenario(args):
    sc, max_points = args
    import impl

    s, be, weakly = sc["cfg"]
    out = {"sc": sc, "truth": [], "runs": [], "error": None, "points": [0, 0]}
    try:
        mk = lambda: M.make_base(sc["sig"], {i + 1: c for i, c in enumerate(sc["base"])})
        for c in sc["pool"]:
            r = impl.ask(mk(), M.make_queries({1: c}), s, be, weakly)
            if r["raised"] or len(r["obs"]) != 1:
                out["error"] = f"reference run failed: {r['exc']}"
                return out
            out["truth"].append(r["obs"][0])
        os.makedirs(os.path.join(BUILD, "traces"), exist_ok=True)

        def run(jump_at, unknown_at, multi=False):
            fd, path = tempfile.mkstemp(prefix="btrace_", suffix=".ndjson", dir=os.path.join(BUILD, "traces"))
            os.close(fd)
            import tracer

            info = _run_once(sc, jump_at, unknown_at, path, multi=multi)
            evs = tracer.read_events(path)
            os.unlink(path)
            return info, evs

        info, evs = run(None, None)  # dry run: counts the observation points
        out["points"] = [info["reads"], info["checks"]]
        out["runs"].append({"fault": None, "events": evs})
        ks = list(range(1, info["reads"] + 1))
        if len(ks) > max_points:
            rr = random.Random(len(ks))
            ks = sorted(set(ks[:40] + rr.sample(ks, max_points - 40)))
        for k in ks:
            i2, evs = run(k, None)
            out["runs"].append({"fault": ["clock", k], "fired": i2["jumped"], "events": evs})
        cs = list(range(1, info["checks"] + 1)) if sc["budgets"] != [0, 0, 0] else []
        if len(cs) > max_points:
            rr = random.Random(len(cs))
            cs = sorted(set(cs[:40] + rr.sample(cs, max_points - 40)))
        for k in cs:
            i2, evs = run(None, k)
            out["runs"].append({"fault": ["unknown", k], "fired": i2["unknown"], "events": evs})
        i3, evs = run(None, None, multi=True)  # parallel evaluation under the same budgets, no fault
        out["runs"].append({"fault": ["multi", 0], "fired": True, "events": evs})
        # parallel evaluation with faults: the patched clock / solver are inherited by the forked workers, each with its own copy of
        # the counters as they stood at the fork. A jump at the parent's k-th read expires the parent's view (join deadlines) and,
        # for k beyond the fork, every worker at its own k-th read; an 'unknown' at check k hits each worker's k-th solver call.
        if sc["budgets"] != [0, 0, 0]:
            rr = random.Random(i3["reads"] * 31 + i3["checks"])
            pts = sorted(set(rr.sample(range(1, i3["reads"] + 9), min(max_points // 8, i3["reads"] + 8))))
            for k in pts:
                i4, evs = run(k, None, multi=True)
                out["runs"].append({"fault": ["multi-clock", k], "fired": True, "events": evs})
            for k in range(i3["checks"] + 1, i3["checks"] + 1 + min(3, max_points // 20)):
                i4, evs = run(None, k, multi=True)
                out["runs"].append({"fault": ["multi-unknown", k], "fired": True, "events": evs})
    except BaseException as e:
        if isinstance(e, (KeyboardInterrupt, SystemExit)):
            raise
        out["error"] = "harness: " + type(e).__name__ + ": " + str(e)[:300]
    return out


def _exec_hung(sc):
    """Parallel evaluation with a per-query budget of 1 s in which the worker of the FIRST submitted query hangs (sleeps
    13 s): the join (budget + 10 s) terminates it. Real time; keys are chosen so that positions and keys differ."""
    import impl
    import tracer
    from inference.inference_manager import InferenceManager
    from inference.queries import Queries

    s_, be, weakly = sc["cfg"]
    out = {"sc": sc, "truth": [], "events": [], "error": None}
    try:
        mk = lambda: M.make_base(sc["sig"], {i + 1: c for i, c in enumerate(sc["base"])})
        for c in sc["pool"]:
            r = impl.ask(mk(), M.make_queries({1: c}), s_, be, weakly)
            if r["raised"] or len(r["obs"]) != 1:
                out["error"] = f"reference run failed: {r['exc']}"
                return out
            out["truth"].append(r["obs"][0])
        os.makedirs(os.path.join(BUILD, "traces"), exist_ok=True)
        fd, path = tempfile.mkstemp(prefix="htrace_", suffix=".ndjson", dir=os.path.join(BUILD, "traces"))
        os.close(fd)
        tracer.install(path)
        try:
            mgr = InferenceManager(mk(), impl.SYSNAME[s_], pmaxsat_solver=be or "rc2", weakly=weakly)
            conds = {}
            for pos, key in enumerate(sc["keys"]):
                cc = M.make_conditional(*sc["pool"][pos])
                cc._vq = pos + 1
                cc._vdelay = 13.0 if pos == 0 else 0
                conds[key] = cc
            try:
                impl.with_limit(120, mgr.inference, Queries(conds), inference_timeout=1, multi_inference=True)
            except BaseException as e:
                if isinstance(e, (KeyboardInterrupt, SystemExit)):
                    raise
            try:  # follow-up: sequential, no budget
                conds2 = {}
                for pos, key in enumerate(sc["keys"]):
                    cc = M.make_conditional(*sc["pool"][pos])
                    cc._vq = pos + 1
                    conds2[key] = cc
                impl.with_limit(120, mgr.inference, Queries(conds2))
            except BaseException as e:
                if isinstance(e, (KeyboardInterrupt, SystemExit)):
                    raise
        finally:
            tracer.uninstall()
        out["events"] = tracer.read_events(path)
        os.unlink(path)
    except BaseException as e:
        if isinstance(e, (KeyboardInterrupt, SystemExit)):
            raise
        out["error"] = "harness: " + type(e).__name__ + ": " + str(e)[:300]
    return out


def to_trace(sc, truth, events):
    evs = []
    ptime = 0
    for e in events:
        k = e["ev"]
        if k == "call":
            b = e.get("budgets", [0, 0, 0])
            evs.append({"ev": "call", "batch": [[x[0], x[1]] for x in e["batch"]], "multi": e["multi"], "budgets": [int(round(1000 * (x or 0))) for x in b]})
        elif k == "dl":
            evs.append({"ev": "dl", "ms": e["ms"]})
        elif k == "instance":
            evs.append({"ev": "instance", "system": e["system"], "backend": e["backend"], "cls": e["cls"]})
        elif k == "prep":
            evs.append({"ev": "prep", "outcome": e["outcome"], "ptime": int(round(e.get("ptime_ms", 0)))})
        elif k == "answer":
            evs.append({"ev": "answer", "q": e["q"], "result": e["result"], "to": e["to"]})
        elif k == "return":
            evs.append({"ev": "return", "rows": e["rows"], "children": e["children"], **({"cfg": e["cfg"], "cols": e["cols"]} if "cfg" in e else {})})
        elif k == "raise":
            evs.append({"ev": "raise", "exc": e["exc"]})
        elif k == "new":
            continue
        else:
            evs.append({"ev": k, "info": e.get("exc", "")})
    return {"env": {"truth": truth, "text": [M.render_cond(*c) for c in sc["pool"]], "cons": True}, "events": evs}


def run(chk: Check, tier: str):
    rng = random.Random(chk.seed)
    # ---- the design: budgets x durations x expiry placements
    cfg = tlc.cfg_text(invariants=["Safe", "NoRaise", "RowsOK", "NoSpuriousFlag"], constants={"Plumbing": "byIndex", "MaxCalls": 1 if tier == "quick" else 2, "MaxBatch": 2})
    res = tlc.run("MC_Budget", cfg, "C14_mc", timeout=3000)
    if res.violated:
        machinery_failure(f"MC_Budget: {res.violated} violated by the specification itself\n{res.out[-2000:]}")
    tlc.require_ok(res, "MC_Budget")
    chk.add_tlc("MC_Budget", res, "all budget triples over {0,1,5}s x preprocessing durations x expiry placements")
    # unbounded companion: NoUnflaggedWrong and NoFaultRaise follow from an inductive invariant of Budget.tla (TLAPS)
    import tlaps

    pr = tlaps.prove("BudgetProof")
    chk.cov["tlaps_BudgetProof"] = {k: pr[k] for k in ("available", "proved", "refuted", "obligations", "wall_s")}
    if pr["refuted"]:
        chk.assumptions.append("tlapm did not re-prove every obligation of a proof module in this run (recorded under coverage.tlaps_*); the TLC results do not depend on it")
    # ---- fault enumeration on the real code
    n = 14 if tier == "quick" else 400
    scen = []
    i = 0
    while len(scen) < n and i < 10 * n:
        sc = gen_scenario(rng, CONFIGS[i % len(CONFIGS)])
        i += 1
        if sc:
            if len(scen) % 3 == 2:  # every third scenario: preprocessing outlasts the total budget (negative remaining query budget)
                sc["budgets"] = rng.choice([[5, 0, 0], [5, 0, 2], [9, 0, 3]])
                sc["prep_delay"] = float(sc["budgets"][0] + rng.choice([2, 6]))
            scen.append(sc)
    results = infer.pool_map(_exec_scenario, [(sc, 120 if tier == "quick" else 300) for sc in scen], chunksize=1)
    traces, idx = [], []
    points = 0
    for r in results:
        if r["error"]:
            if r["error"].startswith("reference"):
                chk.violation("budget/reference|" + json.dumps(r["sc"]["cfg"]), r["error"], {"scenario": _doc(r["sc"])})
                continue
            machinery_failure(r["error"])
        for run_ in r["runs"]:
            traces.append(to_trace(r["sc"], r["truth"], run_["events"]))
            idx.append((r, run_))
            if run_["fault"] and run_.get("fired"):
                points += 1
                chk.nontrivial([r["sc"]["cfg"], [M.render_cond(*c) for c in r["sc"]["base"]], r["sc"]["budgets"], run_["fault"]])
        chk.add_eval(len(r["runs"]))
    chk.cov["scenarios"] = len(scen)
    chk.cov["observation_points_per_scenario"] = [{"config": r["sc"]["cfg"], "budgets_s": r["sc"]["budgets"], "clock_reads": r["points"][0], "optimize_checks": r["points"][1]} for r in results if not r["error"]]
    chk.cov["faults_fired"] = points
    # parallel faulted runs: how many actually produced a flagged row (the fault reached the parent's deadline or a worker)
    par = [run_ for r in results if not r["error"] for run_ in r["runs"] if run_["fault"] and run_["fault"][0] in ("multi-clock", "multi-unknown")]
    flagged = sum(1 for run_ in par if any(e["ev"] == "return" and any(row[3] or row[4] for row in e["rows"]) for e in run_["events"]))
    chk.cov["parallel_faulted_runs"] = len(par)
    chk.cov["parallel_faulted_runs_with_flagged_rows"] = flagged
    # ---- hung worker under parallel evaluation (real time, ~12 s, run concurrently)
    hung = []
    for cfg in [("p", "", False), ("w", "rc2", False), ("c", "rc2", False)][: (3 if tier == "quick" else 3)]:
        sc = None
        while sc is None:
            sc = gen_scenario(rng, cfg)
        sc["keys"] = [5, 0, 7][: len(sc["pool"])]
        sc["budgets"] = [0, 0, 1]
        hung.append(sc)
    for r in infer.pool_map(_exec_hung, hung, chunksize=1):
        if r["error"]:
            if r["error"].startswith("reference"):
                continue
            machinery_failure(r["error"])
        traces.append(to_trace(r["sc"], r["truth"], r["events"]))
        idx.append((r, {"fault": ["hung-worker", 1], "fired": True, "events": r["events"]}))
        chk.nontrivial([r["sc"]["cfg"], "hung-worker", [M.render_cond(*c) for c in r["sc"]["base"]]])
        chk.add_eval(1)
    chk.cov["hung_worker_runs"] = len(hung)
    rej = manager.validate_traces(chk, traces, "faults", module="Trace_Budget", invariants=("TraceSafe", "TraceNoRaise"))
    for rj in rej:
        r, run_ = idx[rj["reject"] - 1]
        sc = r["sc"]
        ev = rj.get("event")
        chk.violation(f"budget|{sc['cfg']}|{';'.join(M.render_cond(*c) for c in sc['base'])}|{sc['budgets']}|fault={run_['fault']}|at={rj.get('at')}",
                      f"{sc['cfg']} budgets {sc['budgets']}s fault {run_['fault']}: trace is not a behaviour of Budget.tla: event #{rj.get('at')} {json.dumps(ev)[:260]} cannot be matched in state {rj.get('state')}",
                      {"kind": "budget", "scenario": _doc(sc), "fault": run_["fault"], "truth_without_budgets": r["truth"],
                       "trace": to_trace(sc, r["truth"], run_["events"])["events"], "rejected_at": rj.get("at"), "model_state": rj.get("state")})
    chk.cov["exhaustive"] = True
    chk.cov["rule"] = (
        "MC_Budget: every budget triple over {0,1,5} s, preprocessing durations below/at/above the budgets, every placement of time-outs over the queries of <= 1 (2) calls. "
        "Real code: per scenario (operator x back-end x mode, multi-layer base over 3-4 atoms, batch of 3, budget triple, virtual preprocessing duration) a dry run under the virtual clock counts "
        "the observation points; then for EVERY k (stratified above the cap) the k-th read of the deadline clock jumps past all deadlines, and for every k the k-th z3 Optimize.check returns unknown; "
        "each faulted call is followed by an un-budgeted call on the same manager; one parallel run per scenario; three parallel runs (real time) in which the worker of the "
        "first submitted query hangs beyond budget + 10 s and is terminated by the join (keys 5, 0, 7 so that positions and keys differ). Every trace (call with budgets, Deadline durations, prep, answer, return/raise) "
        "is validated by TLC against Budget.tla. Non-trivial = faulted run whose fault actually fired; distinct by (scenario, fault)."
    )
    chk.assumptions += ["a solver time-out is simulated by the `unknown` result of Optimize.check, the only form in which the code can observe it",
                        "the virtual clock is shared by the deadline clock and the timing clock; in parallel evaluation every forked worker carries its own copy of the fault counters (a fault point applies to each worker separately)"]
    if idx:
        r, run_ = idx[min(3, len(idx) - 1)]
        chk.sample({"scenario": _doc(r["sc"]), "fault": run_["fault"], "trace_events": to_trace(r["sc"], r["truth"], run_["events"])["events"][:10]})
    return chk.finish()


def _doc(sc):
    return {"config": sc["cfg"], "signature": sc["sig"], "base": [M.render_cond(*c) for c in sc["base"]], "queries": [M.render_cond(*c) for c in sc["pool"]],
            "budgets_seconds_total_prep_per": sc["budgets"], "virtual_preprocessing_delay_s": sc["prep_delay"]}
