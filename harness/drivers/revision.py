"""C19: c-revision. Incremental compilation model under add/remove histories, agreement of the three compilers,
and the meaning of the parameters c_revision returns; all recorded and validated by TLC (Trace_Revision)."""
from __future__ import annotations

import json
import random

import model as M
import tlc
from common import Check, machinery_failure
from drivers import infer, manager, ocf


def _mk_cond(c, idx):
    cc = M.make_conditional(c[0], c[1])
    cc.index = idx
    return cc


def _caches(model, n):
    nw = 1 << n
    return ([sorted(model.world_acc[ocf.wstr(w, n)]) for w in range(1, nw + 1)], [sorted(model.world_rej[ocf.wstr(w, n)]) for w in range(1, nw + 1)])


def _comp_event(kind, comp):
    v, f = comp
    pj = lambda d: [[int(i), [[int(t[0]), sorted(int(x) for x in t[1]), sorted(int(x) for x in t[2])] for t in lst]] for i, lst in d.items()]
    return {"ev": "compile", "kind": kind, "v": pj(v), "f": pj(f)}


def _exec_rev(sc):
    import impl
    from inference.c_revision import c_revision, compile_alt, compile_alt_fast
    from inference.c_revision_model import CRevisionModel
    from inference.preocf import PreOCF

    sig, n = sc["sig"], len(sc["sig"])
    nw = 1 << n
    evs = []
    out = {"sc": sc, "env": {"nw": nw, "prior": sc["prior"]}, "events": evs, "error": None}
    try:
        import z3

        z3.set_param("timeout", 120000)  # an optimisation z3 cannot finish ends as 'unknown' (an observed error) instead of hanging the check
        prior = PreOCF.init_custom({ocf.wstr(w, n): sc["prior"][w - 1] for w in range(1, nw + 1)}, signature=list(sig))
        model = CRevisionModel(prior, [])
        current = {}
        for step in sc["ops"]:
            k = step[0]
            try:
                _one_step(step, k, sc, model, current, prior, evs, n, sig)
            except BaseException as e:  # an exception of the code under test is an observation, not a harness failure
                if isinstance(e, (KeyboardInterrupt, SystemExit)):
                    raise
                evs.append({"ev": "error", "op": k, "exc": type(e).__name__ + ": " + str(e)[:200]})
                break
    except BaseException as e:
        if isinstance(e, (KeyboardInterrupt, SystemExit)):
            raise
        out["error"] = "harness: " + type(e).__name__ + ": " + str(e)[:300]
    return out


def _one_step(step, k, sc, model, current, prior, evs, n, sig):
    import impl
    from inference.c_revision import c_revision, compile_alt, compile_alt_fast

    if True:
        if True:
            if k == "add":
                i, c = step[1], sc["cands"][step[2]]
                try:
                    model.add_conditional(_mk_cond(c, i))
                    current[i] = c
                    a, r = _caches(model, n)
                    evs.append({"ev": "add", "i": i, "cond": M.cond_vec(c[0], c[1], sig), "acc": a, "rej": r, "text": M.render_cond(*c)})
                except ValueError:
                    evs.append({"ev": "addfail", "i": i})
            elif k == "remove":
                model.remove_conditional(step[1])
                current.pop(step[1], None)
                a, r = _caches(model, n)
                evs.append({"ev": "remove", "i": step[1], "acc": a, "rej": r})
            elif k == "compile":
                evs.append(_comp_event("model", model.to_compilation()))
                lst = [_mk_cond(c, i) for i, c in current.items()]
                evs.append(_comp_event("alt", compile_alt(prior, lst)))
                evs.append(_comp_event("fast", compile_alt_fast(prior, lst)))
            elif k == "crevfront":
                from inference.c_revision import c_revision_pareto_front

                lst = [_mk_cond(c, i) for i, c in current.items()]
                if not lst or len(lst) > 3:
                    return
                sols = impl.with_limit(120, c_revision_pareto_front, prior, lst, gamma_plus_zero=True, max_solutions=200)
                vecs_ = []
                for sol in sols:
                    vecs_.append([[int(key[7:]), int(val)] for key, val in sol.items() if key.startswith("gamma-_") and int(key[7:]) in current])
                mx = max([v for vec in vecs_ for _, v in vec] + [0])
                evs.append({"ev": "crevfront", "vectors": vecs_, "bound": min(max(max(sc["prior"]) + (1 << max(0, len(lst) - 1)), mx) + 1, 7)})
            elif k == "crev":
                _, plus_zero, fixp, fixm, use_model = step
                fixp = {i: v for i, v in fixp.items() if i in current}
                fixm = {i: v for i, v in fixm.items() if i in current}
                lst = [_mk_cond(c, i) for i, c in current.items()]
                if not lst:
                    return
                bound = max(sc["prior"]) + (1 << max(0, len(lst) - 1)) + 1
                rec = {"ev": "crev", "plusZero": plus_zero, "fixp": [[i, v] for i, v in fixp.items()], "fixm": [[i, v] for i, v in fixm.items()], "kind": "model" if use_model else "fresh",
                       "bound": bound, "pbound": max([0 if plus_zero else 1] + list(fixp.values())), "gp": [], "gm": []}
                try:
                    res = impl.with_limit(120, c_revision, prior, lst, gamma_plus_zero=plus_zero, fixed_gamma_minus=fixm or None, fixed_gamma_plus=fixp or None, model=model if use_model else None)
                    if res is None:
                        rec["result"] = "none"
                    else:
                        rec["result"] = "ok"
                        for key, val in res.items():
                            if key.startswith("gamma+_"):
                                rec["gp"].append([int(key[7:]), int(val)])
                            elif key.startswith("gamma-_"):
                                rec["gm"].append([int(key[7:]), int(val)])
                        rec["gp"] = [x for x in rec["gp"] if x[0] in current]
                        rec["gm"] = [x for x in rec["gm"] if x[0] in current]
                except BaseException as e:
                    if isinstance(e, (KeyboardInterrupt, SystemExit)):
                        raise
                    rec["result"] = "error"
                    rec["exc"] = type(e).__name__ + ": " + str(e)[:200]
                evs.append(rec)


def gen_scenario(rng, tier):
    atoms = rng.choice([2, 2, 3]) if tier == "quick" else rng.choice([1, 2, 2, 3, 3, 4])
    sig = infer.SIG[:atoms]
    nw = 1 << atoms
    prior = [0] * nw if rng.random() < 0.3 else [rng.choice([0, 0, 1, 2]) for _ in range(nw)]
    if 0 not in prior:
        prior[rng.randrange(nw)] = 0
    cands = []
    lit = lambda: (M.V(rng.choice(sig)) if rng.random() < 0.5 else M.Not(M.V(rng.choice(sig))))
    for _ in range(4):
        r = rng.random()
        if r < 0.5:
            cands.append((lit(), lit()))  # literal conditional: the bit-mask fast path
        elif r < 0.85:
            c = infer.gen_cond(sig, rng)
            cands.append((c["B"], c["A"]))  # compound: solver fallback
        else:
            a = lit()
            cands.append((M.Or(a, lit()), a))  # unfalsifiable
    ops = []
    live = set()
    for _ in range(rng.choice([3, 4, 5, 6])):
        if live and rng.random() < 0.3:
            i = rng.choice(sorted(live))
            ops.append(["remove", i])
            live.discard(i)
        else:
            i = rng.choice([1, 2, 3, 5])
            if len(live | {i}) > 3:  # at most 3 live conditionals keeps TLC's witness search small
                continue
            ops.append(["add", i, rng.randrange(len(cands))])
            live.add(i)
        if rng.random() < 0.5:
            ops.append(["compile"])
    ops.append(["compile"])
    for _ in range(rng.choice([2, 3, 4])):
        plus_zero = rng.random() < 0.5
        pick = lambda: rng.choice(sorted(live)) if live else 1
        fixm = {pick(): rng.choice([0, 1, 2, 3])} if rng.random() < 0.25 else {}
        fixp = {pick(): rng.choice([0, 0, 1, 2])} if rng.random() < 0.4 else {}
        if fixp and len(live) > 1 and rng.random() < 0.3:
            fixp[pick()] = rng.choice([0, 1])
        ops.append(["crev", plus_zero, fixp, fixm, rng.random() < 0.5])
    if rng.random() < 0.35:
        ops.append(["crevfront"])
    return {"sig": sig, "prior": prior, "cands": cands, "ops": ops}


def run(chk: Check, tier: str):
    rng = random.Random(chk.seed)
    res = tlc.run("MC_Revision", tlc.cfg_text(invariants=["Exact", "FreshEqual"], constants={"MaxSteps": 6 if tier == "quick" else 8}), "C19_mc", timeout=1200)
    if res.violated:
        machinery_failure(f"MC_Revision: {res.violated} violated by the specification itself")
    tlc.require_ok(res, "MC_Revision")
    chk.add_tlc("MC_Revision", res, "all add/remove sequences over 3 candidate conditionals")
    # unbounded companion: CachesExact is inductive under Add / Remove for any worlds, indices and conditionals (TLAPS)
    import tlaps

    pr = tlaps.prove("RevisionProof")
    chk.cov["tlaps_RevisionProof"] = {k: pr[k] for k in ("available", "proved", "refuted", "obligations", "wall_s")}
    if pr["refuted"]:
        chk.assumptions.append("tlapm did not re-prove every obligation of a proof module in this run (recorded under coverage.tlaps_*); the TLC results do not depend on it")
    scen = [gen_scenario(rng, tier) for _ in range(260 if tier == "quick" else 20000)]
    # pinned: the case recorded in known_findings.json (the scenario of unittests/test_c_revision_fixed_gamma.py)
    scen.append({"sig": ["a", "b"], "prior": [0, 0, 0, 0], "cands": [(M.V("a"), M.V("b")), (M.Not(M.V("a")), M.V("b"))],
                 "ops": [["add", 1, 0], ["add", 2, 1], ["compile"], ["crev", True, {}, {1: 2}, False]]})
    results = infer.pool_map(_exec_rev, scen, chunksize=2)
    traces, keep = [], []
    cnt = {"crev_ok": 0, "crev_none": 0, "crev_error": 0, "compile_events": 0, "crev_fronts": 0}
    for r in results:
        if r["error"]:
            machinery_failure(r["error"])
        traces.append({"env": r["env"], "events": [{k: v for k, v in e.items() if k not in ("text", "exc")} for e in r["events"]]})
        keep.append(r)
        chk.add_eval(len(r["events"]))
        for e in r["events"]:
            if e["ev"] == "crev":
                cnt["crev_" + e["result"]] += 1
            elif e["ev"] == "compile":
                cnt["compile_events"] += 1
            elif e["ev"] == "crevfront":
                cnt["crev_fronts"] += 1
        if any(e["ev"] == "crev" for e in r["events"]):
            chk.nontrivial([r["sc"]["prior"], [M.render_cond(*c) for c in r["sc"]["cands"]], json.dumps(r["sc"]["ops"], default=str)])
    chk.cov.update(cnt)
    for rj in manager.validate_traces(chk, traces, "rev", module="Trace_Revision", constants={}, invariants=("TraceCachesExact",)):
        r = keep[rj["reject"] - 1]
        sc = r["sc"]
        at = rj.get("at")
        ev = r["events"][at - 1] if isinstance(at, int) and 0 < at <= len(r["events"]) else rj.get("event")
        live = rj.get("state", {}).get("conds")
        fp = f"rev|{sc['prior']}|{[M.render_cond(*c) for c in sc['cands']]}|{json.dumps(sc['ops'], default=str)}|at={at}"
        if isinstance(ev, dict) and ev.get("ev") == "crev" and ev.get("fixm") and ev.get("result") == "ok":
            # identified by call site (see known_findings.json): a c_revision call with fixed_gamma_minus that returned parameters
            fp = "c_revision|call-site=fixed_gamma_minus|returned parameters do not satisfy the revision"
        chk.violation(fp,
                      f"c-revision on prior {sc['prior']} over {sc['sig']}, candidates {[M.render_cond(*c) for c in sc['cands']]}: event #{at} {json.dumps(ev, default=str)[:400]} is not allowed by Revision.tla (current indices {live})",
                      {"kind": "revision", "signature": sc["sig"], "prior": sc["prior"], "candidates": [M.render_cond(*c) for c in sc["cands"]], "ops": sc["ops"], "events": r["events"], "rejected_at": at})
    chk.cov["rule"] = (
        "MC_Revision: all add/remove sequences (<= 6/8 steps) over a literal, a compound and an unfalsifiable conditional keep the caches exact and equal to a fresh model. Real code: priors over 2-3 atoms "
        "(30% all-zero), candidate conditionals (literal = bit-mask fast path, compound = solver fallback, unfalsifiable), add/remove histories on a CRevisionModel with sparse indices; after steps the model's "
        "to_compilation, compile_alt and compile_alt_fast of the current list are recorded and TLC compares each, as bags of (rank, verified others, falsified others) per index, with the specification's "
        "Compilation; c_revision is called in all modes (gamma+ zero or free, fixed gamma-/gamma+ maps, with or without the incremental model): it must not raise; returned parameters must be non-negative, "
        "respect fixed values and make the revised ranking accept every conditional, with gamma+ = 0 no smaller gamma- vector may work (finite search); None is wrong iff TLC finds admissible parameters "
        "inside the stated box. Non-trivial = history with at least one c_revision call."
    )
    chk.assumptions += ["'no parameters exist' is refuted only by a witness with all values <= max prior rank + 2^(n-1) + 1"]
    if keep:
        chk.sample({"prior": keep[0]["sc"]["prior"], "candidates": [M.render_cond(*c) for c in keep[0]["sc"]["cands"]], "events": [{k: v for k, v in e.items() if k not in ("acc", "rej")} for e in keep[0]["events"]][:8]})
    return chk.finish()
