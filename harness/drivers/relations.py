"""Relational monitor drivers (C08 inclusions, C09 postulates, C11 back-ends): bases of any size, no world
enumeration; the implications/equalities themselves are checked by TLC (Trace_Relations.tla)."""
from __future__ import annotations

import glob
import json
import os
import random

import model as M
import tlc
from common import BUILD, REPO, Check, machinery_failure
from drivers import infer

EX = os.path.join(REPO, "examples")


def cfg_name(s, be):
    return s if s in ("p", "z") else f"{s}_{be}"


# ----------------------------------------------------------------------------- cases
def corpus_cases(rng, tier, sizes_quick=("6_6", "8_8", "10_10", "12_12", "14_14", "16_16", "18_18", "20_20"),
                 sizes_thorough=("30_30", "40_40", "50_50", "60_60"), per_size=2, nq=8):
    """File-based cases from the corpora shipped with the repository."""
    cases = []
    birds = [("birds/kb_birds001.cl", "birds/query_birds001.cl"), ("birds/kb_birds003.cl", "birds/query_birds003.cl"),
             ("birds/example1.cl", "birds/query_example1.cl"), ("birds/example2.cl", "birds/query_example2.cl")]
    for b, q in birds:
        if os.path.exists(os.path.join(EX, b)) and os.path.exists(os.path.join(EX, q)):
            cases.append({"kind": "file", "bb": os.path.join(EX, b), "q": os.path.join(EX, q), "nq": nq, "qoff": 0})
    sizes = list(sizes_quick) + (list(sizes_thorough) if tier == "thorough" else [])
    for sz in sizes:
        for k in rng.sample(range(100), per_size if tier == "quick" else per_size * 3):
            b = os.path.join(EX, "random_large", f"randomTest_{sz}_{k}.cl")
            q = os.path.join(EX, "random_large", f"randomQueries_{sz}_{k}.clq")
            if os.path.exists(b) and os.path.exists(q):
                cases.append({"kind": "file", "bb": b, "q": q, "nq": nq, "qoff": rng.randrange(20)})
    rep = os.path.join(EX, "484_inference_relations_representatives")
    kbs = sorted(glob.glob(os.path.join(rep, "kb*.cl")))
    qf = os.path.join(rep, "484_inference_relations_representatives_query.cl")
    if kbs and os.path.exists(qf):
        for b in rng.sample(kbs, min(len(kbs), 12 if tier == "quick" else 120)):
            cases.append({"kind": "file", "bb": b, "q": qf, "nq": nq, "qoff": rng.randrange(40)})
    return cases


def _lit(sig, rng):
    a = M.V(rng.choice(sig))
    return a if rng.random() < 0.6 else M.Not(a)


def layered_base(rng, atoms, nconds):
    """Generated base over many atoms: specificity chains (exceptions of exceptions) plus random default rules."""
    sig = [f"x{i}" for i in range(atoms)]
    conds = []
    pool = list(sig)
    rng.shuffle(pool)
    # chains: c1 -> c2 -> c3 with alternating property
    while len(pool) >= 4 and len(conds) < nconds * 0.6:
        depth = rng.choice([2, 3, 3, 4])
        if len(pool) < depth + 1:
            break
        cls = [pool.pop() for _ in range(depth)]
        prop = pool.pop()
        sign = True
        for i, c in enumerate(cls):
            conds.append((M.V(prop) if sign else M.Not(M.V(prop)), M.V(c)))
            sign = not sign
            if i + 1 < len(cls):
                conds.append((M.V(c), M.V(cls[i + 1])))  # more specific class is a subclass: (c_i | c_{i+1})
    while len(conds) < nconds:
        r = rng.random()
        if r < 0.5:
            conds.append((_lit(sig, rng), _lit(sig, rng)))
        elif r < 0.8:
            conds.append((_lit(sig, rng), M.And(_lit(sig, rng), _lit(sig, rng))))
        else:
            conds.append((M.Or(_lit(sig, rng), _lit(sig, rng)), _lit(sig, rng)))
    rng.shuffle(conds)
    return sig, conds[:nconds]


def gen_queries(sig, conds, rng, nq):
    qs, seen = [], set()
    cands = []
    for (B, A) in conds:
        cands.append((B, A))
        cands.append((M.Not(B), A))
    for _ in range(nq * 3):
        r = rng.random()
        if r < 0.4:
            cands.append((_lit(sig, rng), _lit(sig, rng)))
        elif r < 0.7:
            cands.append((_lit(sig, rng), M.And(_lit(sig, rng), _lit(sig, rng))))
        else:
            B, A = rng.choice(conds)
            cands.append((_lit(sig, rng), A))
    rng.shuffle(cands)
    for c in cands:
        t = M.render_cond(*c)
        if t not in seen:
            seen.add(t)
            qs.append(c)
        if len(qs) >= nq:
            break
    return qs


def generated_cases(rng, n, atom_range=(8, 40), nq=8):
    cases = []
    for _ in range(n):
        atoms = rng.randint(*atom_range)
        nconds = rng.randint(max(3, atoms // 3), atoms)
        sig, conds = layered_base(rng, atoms, nconds)
        cases.append({"kind": "trees", "sig": sig, "base": conds, "qs": gen_queries(sig, conds, rng, nq), "via": "api"})
    return cases


def small_cases(rng, n, shapes=("strong",), nq=8):
    out = []
    # a fifth of the small cases are 'defaults and exceptions' bases and TLC-found distinguishing inputs (several ties per layer)
    special = [c for c in (infer.gen_case_defaults(rng, nq) for _ in range(n // 5)) if c]
    special += infer.distinguishing_cases(rng, "wAnyTie")[: n // 5] + infer.distinguishing_cases(rng, "lexAllPairs")[: n // 10] + infer.distinguishing_cases(rng, "lexAllMcsF")[: n // 10] + infer.distinguishing_cases(rng, "wMinCard")[: n // 5]
    for c in special:
        out.append({"kind": "trees", "sig": c["sig"], "base": [(x["B"], x["A"]) for x in c["base"]], "qs": [(x["B"], x["A"]) for x in c["qs"]], "via": "api"})
    for _ in range(n):
        c = infer.gen_case(rng, rng.choice([3, 4, 5]), rng.choice([2, 3, 4, 5, 6]), nq, set(shapes))
        if c:
            out.append({"kind": "trees", "sig": c["sig"], "base": [(x["B"], x["A"]) for x in c["base"]], "qs": [(x["B"], x["A"]) for x in c["qs"]], "via": c["via"]})
    return out


# ----------------------------------------------------------------------------- execution
def load_case(case):
    import impl
    from inference.queries import Queries

    if case["kind"] == "file":
        from parser.Wrappers import parse_belief_base, parse_queries

        bb = parse_belief_base(case["bb"])
        qs = parse_queries(case["q"])
        items = list(qs.conditionals.items())[case.get("qoff", 0):][: case["nq"]]
        if not items:
            items = list(qs.conditionals.items())[: case["nq"]]
        return bb, Queries(dict(items))
    bb = impl.build_base(case["sig"], case["base"], via=case.get("via", "api"), keys=infer.key_layout(case))
    qs = impl.build_queries(case["qs"], via="api")
    return bb, qs


def _exec_rel(args):
    case, configs, budget = args
    import impl

    out = []
    for (s, be, weakly) in configs:
        try:
            bb, qs = load_case(case)
            kw = {"total_timeout": budget} if budget else {}
            r = impl.ask(bb, qs, s, be, weakly, limit=max(300, 4 * budget), **kw)
            obs = ["X" if (row["to"] or row["pto"]) else row["ans"] for row in r["rows"]] if not r["raised"] else []
            texts = [row["text"] for row in r["rows"]]
        except BaseException as e:
            if isinstance(e, (KeyboardInterrupt, SystemExit)):
                raise
            r = {"raised": True, "exc": "load:" + type(e).__name__ + ": " + str(e)[:200]}
            obs, texts = [], []
        out.append({"sys": s, "backend": be, "weakly": weakly, "raised": r["raised"], "exc": r.get("exc"), "obs": obs, "texts": texts})
    return out


def case_id(case):
    if case["kind"] == "file":
        return os.path.relpath(case["bb"], EX) + "#" + os.path.basename(case["q"]) + f"+{case.get('qoff', 0)}:{case['nq']}"
    return "gen:" + ";".join(M.render_cond(*c) for c in case["base"])[:400]


def case_doc(case):
    if case["kind"] == "file":
        return {"belief_base_file": case["bb"], "queries_file": case["q"], "query_offset": case.get("qoff", 0), "query_count": case["nq"]}
    return {"signature": case["sig"], "base": [M.render_cond(*c) for c in case["base"]], "queries": [M.render_cond(*c) for c in case["qs"]],
            "trees": {"base": case["base"], "qs": case["qs"]}}


def validate_rel(chk: Check, events, tag):
    if not events:
        return []
    os.makedirs(os.path.join(BUILD, "in"), exist_ok=True)
    tf = os.path.join(BUILD, "in", f"{chk.prop}_{tag}.json")
    with open(tf, "w") as f:
        json.dump(events, f)
    res = tlc.run("Trace_Relations", tlc.cfg_text(), f"{chk.prop}_{tag}", env={"TRACE_FILE": tf}, timeout=1800)
    tlc.require_ok(res, "Trace_Relations")
    if res.distinct != 1 + 2 * len(events):
        machinery_failure(f"Trace_Relations consumed {res.distinct} states, expected {1 + 2 * len(events)}")
    chk.add_tlc(f"Trace_Relations:{tag}", res, f"{len(events)} relation events validated")
    chk.add_traces(len(events))
    return [p for p in res.prints if "reject" in p]


# ----------------------------------------------------------------------------- C08 / C11
def run_inclusions(chk: Check, cases, modes, budget=60, systems=("p", "z", "w", "l", "c"), backends=None, ev_kind="incl"):
    configs = infer.configs_for(list(systems), list(modes), backends)
    results = infer.pool_map(_exec_rel, [(c, configs, budget) for c in cases], chunksize=1)
    events, idx = [], []
    refused = informative = skipped = 0
    for ci, (case, res) in enumerate(zip(cases, results)):
        for weakly in modes:
            rs = [r for r in res if r["weakly"] == weakly]
            ok = [r for r in rs if not r["raised"]]
            if len(ok) != len(rs):
                # all-or-nothing refusal is legitimate (base inconsistent for the mode); a partial one is a disagreement
                if ok:
                    bad = [r for r in rs if r["raised"]]
                    only_c = all(r["sys"] == "c" for r in bad)
                    chk.violation(f"{ev_kind}/partial-refusal|{case_id(case)}|ext={weakly}|{sorted(cfg_name(r['sys'], r['backend']) for r in bad)}",
                                  f"same base, mode weakly={weakly}: {[cfg_name(r['sys'], r['backend']) for r in bad]} raised ({bad[0]['exc']}) while {[cfg_name(r['sys'], r['backend']) for r in ok]} answered",
                                  {"kind": ev_kind, "case": case_doc(case), "weakly": weakly, "raised": {cfg_name(r["sys"], r["backend"]): r["exc"] for r in bad}})
                else:
                    refused += 1
                continue
            n = min(len(r["obs"]) for r in ok) if ok else 0
            if n == 0:
                continue
            ans = {cfg_name(r["sys"], r["backend"]): r["obs"][:n] for r in ok}
            if ev_kind == "incl":
                events.append({"ev": "incl", "weakly": weakly, "ans": ans})
                idx.append((ci, weakly, None, ok))
            else:
                for s in systems:
                    sub = {k: v for k, v in ans.items() if k == s or k.startswith(s + "_")}
                    if len(sub) >= 2:
                        events.append({"ev": "equal", "ans": sub})
                        idx.append((ci, weakly, s, ok))
            informative += 1
            skipped += sum(v.count("X") for v in ans.values())
            for qi in range(n):
                col = {k: v[qi] for k, v in ans.items()}
                if ev_kind == "incl":
                    if len(set(col.values()) - {"X"}) >= 2:
                        chk.nontrivial([case_id(case), weakly, qi])
                else:
                    for s in systems:
                        known = [v for k, v in col.items() if (k == s or k.startswith(s + "_")) and v in ("T", "F")]
                        if len(known) >= 2:
                            chk.nontrivial([case_id(case), weakly, s, qi])
            chk.add_eval(n * len(ok))
    rejects = validate_rel(chk, events, ev_kind)
    for rj in rejects:
        ci, weakly, s, ok = idx[rj["reject"] - 1]
        case = cases[ci]
        ans = events[rj["reject"] - 1]["ans"]
        for qi in rj["what"]:
            col = {k: v[qi - 1] for k, v in ans.items()}
            qtext = ok[0]["texts"][qi - 1] if ok and len(ok[0]["texts"]) >= qi else "?"
            chk.violation(f"{ev_kind}|{case_id(case)}|ext={weakly}|q={qtext}|{json.dumps(col, sort_keys=True)}",
                          f"{'inclusion chain' if ev_kind == 'incl' else 'back-end agreement'} broken, weakly={weakly}, query {qtext}: answers {col}",
                          {"kind": ev_kind, "case": case_doc(case), "weakly": weakly, "query": qtext, "answers": col})
    chk.cov.setdefault("refused_cases", 0)
    chk.cov["refused_cases"] += refused
    chk.cov.setdefault("informative_case_modes", 0)
    chk.cov["informative_case_modes"] += informative
    chk.cov.setdefault("rows_skipped_timed_out", 0)
    chk.cov["rows_skipped_timed_out"] += skipped
    if events:
        chk.sample({"event": events[len(events) // 2], "case": case_id(cases[idx[len(events) // 2][0]])})
    return events


# ----------------------------------------------------------------------------- C09 postulates
def _rw(f, rng, sig):
    """An equivalence-preserving rewrite (left logical equivalence)."""
    k = rng.randrange(6)
    if k == 0:
        return M.Not(M.Not(f))
    if k == 1:
        return M.And(f, M.TOP)
    if k == 2:
        return M.Or(f, M.BOT)
    if k == 3 and f[0] == "and":
        return M.And(f[2], f[1])
    if k == 4 and f[0] in ("and", "or"):  # De Morgan
        inner = (M.Or if f[0] == "and" else M.And)(M.Not(f[1]), M.Not(f[2]))
        return M.Not(inner)
    a = M.V(rng.choice(sig))
    return M.And(f, M.Or(a, M.Not(a)))


def _exec_post(args):
    """Two phases on one manager per configuration: (1) ask a pool of candidate conditionals, (2) instantiate the
    postulates with premises that were answered True and ask the conclusions."""
    case, configs, seed, n_inst = args
    import impl

    out = []
    for (s, be, weakly) in configs:
        rng = random.Random(seed)
        rec = {"sys": s, "backend": be, "weakly": weakly, "raised": False, "exc": None, "inst": []}
        try:
            bb, qs0 = load_case(case)
            sig = list(bb.signature)
            base = [(M.from_pysmt(c.consequence), M.from_pysmt(c.antecedence)) for c in bb.conditionals.values()]
            if not base:
                raise ValueError("empty base")
            usesig = sorted(set().union(*[M.atoms_of(b) | M.atoms_of(a) for b, a in base])) or sig
            from inference.inference_manager import InferenceManager

            mgr = InferenceManager(bb, impl.SYSNAME[s], pmaxsat_solver=be or "rc2", weakly=weakly)

            def ask(conds):
                conds = list(conds)
                texts, uniq = {}, []
                for c in conds:
                    t = M.render_cond(*c)
                    if t not in texts:
                        texts[t] = len(uniq)
                        uniq.append(c)
                df = impl.with_limit(600, mgr.inference, impl.build_queries(uniq), total_timeout=120)
                rows = impl.project_table(df)
                res = ["X" if (r["to"] or r["pto"]) else r["ans"] for r in rows]
                return [res[texts[M.render_cond(*c)]] for c in conds]

            # phase 1: pool = antecedents x consequents
            ants = [M.TOP] + [a for _, a in rng.sample(base, min(len(base), 4))] + [_lit(usesig, rng) for _ in range(2)]
            # exceptional antecedents: conjunctions of base antecedents/consequents and the joint falsification of two conditionals
            # (the worlds where ties between layers have to be followed)
            for _ in range(3):
                (b1, a1), (b2, a2) = rng.choice(base), rng.choice(base)
                ants.append(rng.choice([M.And(a1, b2), M.And(a1, M.Not(b1)), M.Or(M.And(a1, M.Not(b1)), M.And(a2, M.Not(b2))), M.And(a1, a2)]))
            cons = [b for b, _ in rng.sample(base, min(len(base), 4))] + [_lit(usesig, rng) for _ in range(4)]
            cons += [M.Or(_lit(usesig, rng), _lit(usesig, rng)) for _ in range(2)] + [M.And(_lit(usesig, rng), _lit(usesig, rng)) for _ in range(2)]
            # antecedents as consequents: (a2 | a) holds for every a2 when a is infeasible, (a2 | a2) holds classically -- OR then
            # concludes (a2 | a ; a2), whose antecedent is feasible although one disjunct is not
            cons += rng.sample([a for a in ants if a != M.TOP], min(2, len(ants) - 1))
            pool = [(c, a) for a in ants for c in cons]
            pans = ask(pool)
            true_by_ant = {}
            for (c, a), r in zip(pool, pans):
                if r == "T":
                    true_by_ant.setdefault(json.dumps(a), []).append(c)
            truth = {M.render_cond(c, a): r for (c, a), r in zip(pool, pans)}
            inst = []  # (name, premises [(cond, required)], conclusion (cond, required))
            for (b, a) in base[:12]:
                inst.append(("DI", [], ((b, a), "T")))
            for _ in range(n_inst):
                a = rng.choice(ants)
                X = _lit(usesig, rng)
                tc = true_by_ant.get(json.dumps(a), [])
                inst.append(("REF", [], ((a, a), "T")))
                inst.append(("SCL", [], ((M.Or(a, X), a), "T")))
                if tc:
                    b = rng.choice(tc)
                    c = rng.choice(tc)
                    inst.append(("LLE", [((b, a), "T")], ((b, _rw(a, rng, usesig)), "T")))
                    inst.append(("RW", [((b, a), "T")], ((M.Or(b, X), a), "T")))
                    inst.append(("AND", [((b, a), "T"), ((c, a), "T")], ((M.And(b, c), a), "T")))
                    inst.append(("CM", [((b, a), "T"), ((c, a), "T")], ((c, M.And(a, b)), "T")))
                    if s in ("z", "l"):
                        Bf = _lit(usesig, rng)
                        inst.append(("RM", [((c, a), "T"), ((M.Not(Bf), a), "F")], ((c, M.And(a, Bf)), "T")))
                a2 = rng.choice(ants)
                tc2 = true_by_ant.get(json.dumps(a2), [])
                common = [x for x in tc if x in tc2]
                if common:
                    c = rng.choice(common)
                    inst.append(("OR", [((c, a), "T"), ((c, a2), "T")], ((c, M.Or(a, a2)), "T")))
                if not weakly:
                    k = rng.choice([1, 2, 3])
                    ats = rng.sample(usesig, min(k, len(usesig)))
                    conj = M._conj([(M.V(x) if rng.random() < 0.5 else M.Not(M.V(x))) for x in ats])
                    inst.append(("CONS", [], ((M.BOT, conj), "F")))
            # antecedents under which EVERYTHING asked was entailed (infeasible, e.g. excluded by the infinity layer in extended mode):
            # OR with a second, feasible antecedent a2 and a consequent that a2 entails classically
            for a in ants:
                got = [r for (c_, a_), r in zip(pool, pans) if a_ == a]
                if a != M.TOP and got and all(r == "T" for r in got):
                    for a2 in rng.sample([x for x in ants if x != a and x != M.TOP], min(3, len(ants) - 2)):
                        c = rng.choice([a2, M.Or(a2, _lit(usesig, rng))])
                        inst.append(("OR", [((c, a), "T"), ((c, a2), "T")], ((c, M.Or(a, a2)), "T")))
                        inst.append(("OR", [((c, a), "T"), ((c, a2), "T")], ((c, M.Or(a2, a)), "T")))
            # CUT needs (C | A and B): ask those in phase 2 as premises
            for _ in range(n_inst):
                a = rng.choice(ants)
                tc = true_by_ant.get(json.dumps(a), [])
                if tc:
                    b = rng.choice(tc)
                    c = _lit(usesig, rng) if rng.random() < 0.5 else rng.choice(cons)
                    inst.append(("CUT", [((b, a), "T"), ((c, M.And(a, b)), "T")], ((c, a), "T")))
            # phase 2: ask everything the instances mention, in one batch
            need = []
            for name, prem, concl in inst:
                need += [p[0] for p in prem] + [concl[0]]
            res = dict(zip([M.render_cond(*c) for c in need], ask(need)))
            for name, prem, concl in inst:
                rec["inst"].append({
                    "name": name,
                    "prem": [[req, res[M.render_cond(*c)], M.render_cond(*c)] for c, req in prem],
                    "concl": [concl[1], res[M.render_cond(*concl[0])], M.render_cond(*concl[0])],
                })
        except AssertionError as e:
            rec["raised"], rec["exc"] = True, "refused: " + str(e)[:100]
        except BaseException as e:
            if isinstance(e, (KeyboardInterrupt, SystemExit)):
                raise
            rec["raised"], rec["exc"] = True, type(e).__name__ + ": " + str(e)[:300]
        out.append(rec)
    return out


def run_postulates(chk: Check, cases, modes, n_inst=6, systems=("p", "z", "w", "l", "c")):
    configs = infer.configs_for(list(systems), list(modes))
    tasks = [(c, configs, chk.seed + i, n_inst) for i, c in enumerate(cases)]
    results = infer.pool_map(_exec_post, tasks, chunksize=1)
    events, idx = [], []
    per_name, fired = {}, {}
    for ci, (case, res) in enumerate(zip(cases, results)):
        for rec in res:
            if rec["raised"]:
                if not rec["exc"].startswith("refused"):
                    chk.violation(f"post/raised|{case_id(case)}|{cfg_name(rec['sys'], rec['backend'])}|ext={rec['weakly']}",
                                  f"{cfg_name(rec['sys'], rec['backend'])} weakly={rec['weakly']} raised {rec['exc']} while answering postulate instances",
                                  {"kind": "post", "case": case_doc(case), "exception": rec["exc"]})
                else:
                    chk.cov["refused_cases"] = chk.cov.get("refused_cases", 0) + 1
                continue
            for ins in rec["inst"]:
                if "X" in [p[1] for p in ins["prem"]] or ins["concl"][1] == "X":
                    continue
                events.append({"ev": "post", "name": ins["name"], "prem": [[p[0], p[1]] for p in ins["prem"]], "concl": ins["concl"][:2]})
                idx.append((ci, rec, ins))
                per_name[ins["name"]] = per_name.get(ins["name"], 0) + 1
                if all(p[0] == p[1] for p in ins["prem"]):
                    fired[ins["name"]] = fired.get(ins["name"], 0) + 1
                    chk.nontrivial([case_id(case), cfg_name(rec["sys"], rec["backend"]), rec["weakly"], ins["name"], ins["concl"][2], [p[2] for p in ins["prem"]]])
    chk.add_eval(len(events))
    rejects = validate_rel(chk, events, "post")
    for rj in rejects:
        ci, rec, ins = idx[rj["reject"] - 1]
        case = cases[ci]
        chk.violation(f"post/{ins['name']}|{case_id(case)}|{cfg_name(rec['sys'], rec['backend'])}|ext={rec['weakly']}|{ins['concl'][2]}|{[p[2] for p in ins['prem']]}",
                      f"postulate {ins['name']} violated by {cfg_name(rec['sys'], rec['backend'])} weakly={rec['weakly']}: premises {[(p[2], p[1]) for p in ins['prem']]} but conclusion {ins['concl'][2]} answered {ins['concl'][1]} (required {ins['concl'][0]})",
                      {"kind": "post", "case": case_doc(case), "config": [rec["sys"], rec["backend"], rec["weakly"]], "instance": ins})
    chk.cov["instances_per_postulate"] = per_name
    chk.cov["instances_with_true_premises"] = fired
    if events:
        i = len(events) // 2
        chk.sample({"postulate": idx[i][2], "config": [idx[i][1]["sys"], idx[i][1]["backend"], idx[i][1]["weakly"]], "case": case_id(cases[idx[i][0]])})
    return fired
