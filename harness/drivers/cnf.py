"""C15: (a) CNF encodings are faithful, (b) minimal-correction-subset enumeration is exact."""
from __future__ import annotations

import itertools
import random

import model as M
import pysem
from common import Check
from drivers import infer


# ----------------------------------------------------------------------------- helpers running in workers
def _atom_ids(pool, names):
    """pool ids of the z3 constants that stand for the atoms (keys of the pool are z3 expressions)."""
    import z3

    out = {}
    for obj, vid in list(pool.obj2id.items()):
        if isinstance(obj, z3.ExprRef) and z3.is_const(obj) and obj.decl().kind() == z3.Z3_OP_UNINTERPRETED and str(obj) in names:
            out[str(obj)] = vid
    return out


def _sat_worlds(clauses, ids, sig):
    """worlds (1-based) under which the clause set is satisfiable, by independent SAT calls (PySAT, not RC2)."""
    from pysat.solvers import Solver

    out = []
    with Solver(name="m22", bootstrap_with=[list(c) for c in clauses]) as s:
        for w in range(1, (1 << len(sig)) + 1):
            asg = M.world_assign(w, sig)
            assum = [(ids[a] if asg[a] else -ids[a]) for a in sig if a in ids]
            if s.solve(assumptions=assum):
                out.append(w)
    return out


def _exec_cnf(args):
    items = args
    import impl  # noqa: F401
    from inference.tseitin_transformation import TseitinTransformation

    out = []
    for (sig, conds, query) in items:
        rec = {"sig": sig, "conds": conds, "query": query, "events": [], "exc": None}
        try:
            bb = M.make_base(sig, {i + 1: c for i, c in enumerate(conds)})
            es = {"belief_base": bb}
            tt = TseitinTransformation(es)
            tt.belief_base_to_cnf(True, True, True)
            q = M.make_conditional(*query)
            qv, qf = tt.query_to_cnf(q)
            ids = _atom_ids(es["pool"], set(sig))
            for i, (B, A) in enumerate(conds):
                k = i + 1
                rec["events"].append({"what": f"base[{k}]", "B": B, "A": A, "has": {"v": True, "f": True, "nf": True},
                                      "v": _sat_worlds(es["v_cnf_dict"][k], ids, sig), "f": _sat_worlds(es["f_cnf_dict"][k], ids, sig),
                                      "nf": _sat_worlds(es["nf_cnf_dict"][k], ids, sig)})
            rec["events"].append({"what": "query", "B": query[0], "A": query[1], "has": {"v": True, "f": True, "nf": False},
                                  "v": _sat_worlds(qv, ids, sig), "f": _sat_worlds(qf, ids, sig), "nf": []})
        except BaseException as e:
            if isinstance(e, (KeyboardInterrupt, SystemExit)):
                raise
            rec["exc"] = type(e).__name__ + ": " + str(e)[:200]
        out.append(rec)
    return out


class McsRecorder:
    """External recorder around OptimizerRC2.minimal_correction_subsets and SystemWZ3/LexInfZ3.get_all_xi_i."""

    def __init__(self, sig):
        self.sig = sig
        self.calls = []
        self._steps = []
        self._undo = []

    def __enter__(self):
        from inference import lex_inf_z3, optimizer, system_w_z3

        rec = self
        orig = optimizer.OptimizerRC2.minimal_correction_subsets

        o_gv = optimizer.Optimizer.get_violated_conditional

        def w_gv(self_, model, cost, ignore):
            v = o_gv(self_, model, cost, ignore)
            rec._steps.append(sorted(int(x) for x in v))
            return v

        optimizer.Optimizer.get_violated_conditional = w_gv
        self._undo.append((optimizer.Optimizer, "get_violated_conditional", o_gv))

        def wrapped(self_, wcnf, ignore=[], deadline=None):
            hard = [list(c) for c in wcnf.hard]
            rec._steps = []
            res = orig(self_, wcnf, ignore=ignore, deadline=deadline)
            steps = list(rec._steps)
            try:
                es = self_.epistemic_state
                ids = _atom_ids(es["pool"], set(rec.sig))
                hw = _sat_worlds(hard, ids, rec.sig)
                fal = []
                for k, cl in es["nf_cnf_dict"].items():
                    if k in ignore:
                        continue
                    ok = set(_sat_worlds(cl, ids, rec.sig))
                    fal.append([k, [w for w in range(1, (1 << len(rec.sig)) + 1) if w not in ok]])
                rec.calls.append({"engine": str(es.get("pmaxsat_solver")), "hard": hw, "fal": fal, "result": [list(map(int, x)) for x in res],
                                  "n_soft": len(wcnf.soft), "ignore": list(ignore), "steps": steps})
            except Exception as e:  # recorder problems must not change the run
                rec.calls.append({"recorder_error": type(e).__name__ + ": " + str(e)[:200]})
            return res

        optimizer.OptimizerRC2.minimal_correction_subsets = wrapped
        self._undo.append((optimizer.OptimizerRC2, "minimal_correction_subsets", orig))

        for cls in (system_w_z3.SystemWZ3, lex_inf_z3.LexInfZ3):
            o2 = cls.get_all_xi_i

            def w2(self_, opt, part, _o=o2, _cls=cls):
                import z3

                hard_asserts = list(opt.assertions())
                res = _o(self_, opt, part)
                try:
                    syms = {a: z3.Bool(a) for a in rec.sig}
                    hw, fal = [], [[i + 1, []] for i in range(len(part))]
                    s = z3.Solver()
                    s.add(*hard_asserts)
                    for w in range(1, (1 << len(rec.sig)) + 1):
                        asg = M.world_assign(w, rec.sig)
                        lits = [syms[a] if asg[a] else z3.Not(syms[a]) for a in rec.sig]
                        if s.check(*lits) == z3.sat:
                            hw.append(w)
                        for i, c in enumerate(part):
                            s2 = z3.Solver()
                            s2.add(c.make_A_then_not_B(), *lits)
                            if s2.check() == z3.sat:
                                fal[i][1].append(w)
                    pos = {id(c): i + 1 for i, c in enumerate(part)}
                    rec.calls.append({"engine": "z3:" + _cls.__name__, "hard": hw, "fal": fal, "result": [sorted(pos[id(c)] for c in xs) for xs in res],
                                      "n_soft": len(part), "ignore": []})
                except Exception as e:
                    rec.calls.append({"recorder_error": type(e).__name__ + ": " + str(e)[:200]})
                return res

            cls.get_all_xi_i = w2
            self._undo.append((cls, "get_all_xi_i", o2))
        return self

    def __exit__(self, *a):
        for cls, name, orig in self._undo:
            setattr(cls, name, orig)


def _exec_mcs(args):
    case, configs = args
    import impl

    out = []
    conds = [(c["B"], c["A"]) for c in case["base"]]
    qconds = [(c["B"], c["A"]) for c in case["qs"]]
    for (s, be, weakly) in configs:
        with McsRecorder(case["sig"]) as rec:
            try:
                bb = impl.build_base(case["sig"], conds, via="api")
                qs = impl.build_queries(qconds, via="api")
                r = impl.ask(bb, qs, s, be, weakly)
            except BaseException as e:
                if isinstance(e, (KeyboardInterrupt, SystemExit)):
                    raise
                r = {"raised": True, "exc": str(e)}
        out.append({"config": [s, be, weakly], "raised": r["raised"], "calls": rec.calls})
    return out


def _exec_direct(args):
    """Direct calls of create_optimizer(es).minimal_correction_subsets on synthetic hard/soft combinations."""
    items = args
    import impl  # noqa: F401
    from pysat.formula import WCNF

    from inference.optimizer import create_optimizer
    from inference.tseitin_transformation import TseitinTransformation

    out = []
    for (sig, conds, hard_formula, ignore_keys, engine, seed) in items:
        rec = {"sig": sig, "conds": conds, "hard_formula": hard_formula, "ignore": ignore_keys, "engine": engine, "calls": [], "exc": None}
        try:
            bb = M.make_base(sig, {i + 1: c for i, c in enumerate(conds)})
            es = {"belief_base": bb, "pmaxsat_solver": engine}
            tt = TseitinTransformation(es)
            tt.belief_base_to_cnf(False, True, True)
            hv, _ = tt.query_to_cnf(M.make_conditional(hard_formula, M.TOP))
            wcnf = WCNF()
            for c in hv:
                wcnf.append(c)
            for k, cl in es["nf_cnf_dict"].items():
                if k not in ignore_keys:
                    for c in cl:
                        wcnf.append(c, weight=1)
            with McsRecorder(sig) as r:
                create_optimizer(es).minimal_correction_subsets(wcnf, ignore=list(ignore_keys))
            rec["calls"] = r.calls
        except BaseException as e:
            if isinstance(e, (KeyboardInterrupt, SystemExit)):
                raise
            rec["exc"] = type(e).__name__ + ": " + str(e)[:200]
        out.append(rec)
    return out


# ----------------------------------------------------------------------------- the check
def all_formulas(sig, d):
    """All formula trees of depth <= d over sig (with Top/Bottom)."""
    level = [M.V(a) for a in sig] + [M.TOP, M.BOT]
    allf = list(level)
    for _ in range(d):
        new = [M.Not(f) for f in allf]
        new += [M.And(l, r) for l in allf for r in allf]
        new += [M.Or(l, r) for l in allf for r in allf]
        allf = list(dict.fromkeys(allf + new))
    return allf


def run(chk: Check, tier: str):
    import engines

    rng = random.Random(chk.seed)
    # ---- the enumeration loop as a state machine: exact for every family over 3 keys and EVERY order in which models may come
    import tlc
    from common import machinery_failure

    for flt, want_violation in (("sorted", False), ("asFound", True)):
        res = tlc.run("MC_McsEnum", tlc.cfg_text(spec="FairSpec" if flt == "sorted" else "Spec", invariants=["Exact", "NoSupersetOfEarlier", "Bounded"],
                                                 properties=["Terminates"] if flt == "sorted" else [], constants={"Filter": flt}), f"C15_mcsenum_{flt}", timeout=1800)
        if want_violation:
            if res.violated != "Exact":
                machinery_failure("MC_McsEnum: the unsorted superset filter does not violate Exact (vacuous)")
            chk.cov["wrong_variant_detected"] = "superset filter in enumeration order violates Exact"
        else:
            if res.violated:
                machinery_failure(f"MC_McsEnum: {res.violated} violated by the specification itself")
            tlc.require_ok(res, "MC_McsEnum")
            chk.add_tlc("MC_McsEnum", res, "all 256 families over 3 keys x all enumeration orders")
    # ---- unbounded companion of the model check: the exactness lemma proved by the TLA+ proof system (any family, any keys)
    import tlaps

    for mod in ("McsLemma", "McsEnumProof"):
      pr = tlaps.prove(mod)
      chk.cov["tlaps_" + mod] = {k: pr[k] for k in ("available", "proved", "refuted", "obligations", "wall_s")}
      if pr["refuted"]:
        chk.assumptions.append("tlapm did not re-prove every obligation of a proof module in this run (recorded under coverage.tlaps_*); the TLC results do not depend on it")
    # ---- (a) CNF faithfulness
    sig2 = ["a", "b"]
    f0, f1 = all_formulas(sig2, 0), all_formulas(sig2, 1)
    f2 = all_formulas(sig2, 2) if tier == "thorough" else rng.sample(all_formulas(sig2, 2), 400)
    pairs = [(B, A) for B in f1 for A in f1]  # depth(A), depth(B) <= 1: exhaustive
    pairs += [(B, A) for B in f2 for A in f0] + [(B, A) for B in f0 for A in f2]
    if tier == "thorough":
        pairs += [(B, A) for B in rng.sample(f2, 300) for A in rng.sample(f2, 40)]
    sig3 = ["a", "b", "c"]
    for _ in range(600 if tier == "quick" else 6000):
        pairs.append((M.random_formula(sig3, 3, rng, consts=0.15), M.random_formula(sig3, 3, rng, consts=0.15)))
    items = []
    for i in range(0, len(pairs), 3):
        grp = pairs[i:i + 3]
        sig = sig3 if any(M.atoms_of(B) | M.atoms_of(A) - set(sig2) for B, A in grp) else sig2
        items.append((sig, grp[:-1] if len(grp) > 1 else grp, grp[-1]))
    chunks = [items[i:i + 25] for i in range(0, len(items), 25)]
    results = [r for rs in infer.pool_map(_exec_cnf, chunks, chunksize=1) for r in rs]
    events, idx = [], []
    for rec in results:
        if rec["exc"]:
            chk.violation("cnf/raised|" + ";".join(M.render_cond(*c) for c in rec["conds"] + [rec["query"]]),
                          f"Tseitin transformation raised {rec['exc']} on {[M.render_cond(*c) for c in rec['conds']]} query {M.render_cond(*rec['query'])}",
                          {"kind": "cnf", "signature": rec["sig"], "conds": [M.render_cond(*c) for c in rec["conds"]], "query": M.render_cond(*rec["query"]), "exception": rec["exc"]})
            continue
        for ev in rec["events"]:
            events.append({"ev": "cnf", "sig": rec["sig"], "B": ev["B"], "A": ev["A"], "has": ev["has"], "v": ev["v"], "f": ev["f"], "nf": ev["nf"]})
            idx.append((rec, ev))
            vec = M.cond_vec(ev["B"], ev["A"], rec["sig"])
            if M.depth(ev["B"]) + M.depth(ev["A"]) >= 1:
                chk.nontrivial(["cnf", M.render_cond(ev["B"], ev["A"])])
    chk.add_eval(len(events))
    for rj in infer.validate_events(chk, events, "cnf"):
        rec, ev = idx[rj["reject"] - 1]
        chk.violation("cnf|" + M.render_cond(ev["B"], ev["A"]) + "|" + ev["what"].split("[")[0],
                      f"CNF of {M.render_cond(ev['B'], ev['A'])} ({ev['what']}) over {rec['sig']}: assignments satisfying the clause sets {rj['obs']}, truth table requires {rj['exp']}",
                      {"kind": "cnf", "signature": rec["sig"], "conditional": M.render_cond(ev["B"], ev["A"]), "role": ev["what"], "expected": rj["exp"], "observed": rj["obs"]})
    chk.cov["cnf_conditionals"] = len(events)
    # ---- (b) MCS enumeration: calls arising inside W / lex / c-inference runs, per back-end and SAT engine
    ok_engines, _ = engines.usable_engines()
    eng = rng.sample(ok_engines, min(3 if tier == "quick" else len(ok_engines), len(ok_engines)))
    backends = {"w": ["rc2", "z3"] + [f"rc2-{e}" for e in eng], "l": ["rc2", "z3"] + [f"rc2-{e}" for e in eng[:1]], "c": ["rc2"] + [f"rc2-{e}" for e in eng[:1]]}
    cases = []
    for i in range(70 if tier == "quick" else 900):
        c = infer.gen_case(rng, rng.choice([2, 3, 3, 4]), rng.choice([2, 3, 4, 5]), 5, {"strong", "weak-mixed"}, min_layers=(2 if i % 2 else 0))
        if c:
            cases.append(c)
    configs = infer.configs_for(["w", "l", "c"], [False, True], backends)
    results = infer.pool_map(_exec_mcs, [(c, configs) for c in cases], chunksize=1)
    mevents, midx = [], []
    rec_err = 0
    for case, res in zip(cases, results):
        for r in res:
            for call in r["calls"]:
                if "recorder_error" in call:
                    rec_err += 1
                    continue
                mevents.append({"ev": "mcs", "hard": call["hard"], "fal": call["fal"], "result": call["result"]})
                midx.append((case, r["config"], call))
    # ---- direct calls on synthetic hard/soft combinations
    ditems = []
    for i in range(200 if tier == "quick" else 3000):
        sig = rng.choice([["a", "b"], ["a", "b", "c"], ["a", "b", "c", "d"]])
        n = rng.choice([1, 2, 3, 4, 5])
        conds = [(c["B"], c["A"]) for c in (infer.gen_cond(sig, rng) for _ in range(n))]
        hard = M.random_formula(sig, 2, rng, consts=0.1) if rng.random() < 0.85 else rng.choice([M.TOP, M.BOT, M.And(M.V(sig[0]), M.Not(M.V(sig[0])))])
        ign = [k for k in range(1, n + 1) if rng.random() < 0.2]
        ditems.append((sig, conds, hard, ign, rng.choice(["rc2"] + [f"rc2-{e}" for e in eng]), rng.randrange(1 << 30)))
    dchunks = [ditems[i:i + 10] for i in range(0, len(ditems), 10)]
    for rec in [r for rs in infer.pool_map(_exec_direct, dchunks, chunksize=1) for r in rs]:
        if rec["exc"]:
            chk.violation("mcs/raised|" + ";".join(M.render_cond(*c) for c in rec["conds"]) + "|" + M.render(rec["hard_formula"]),
                          f"minimal_correction_subsets raised {rec['exc']}", {"kind": "mcs-direct", "record": {k: (v if k not in ("conds", "hard_formula") else str(v)) for k, v in rec.items()}})
            continue
        for call in rec["calls"]:
            if "recorder_error" in call:
                rec_err += 1
                continue
            mevents.append({"ev": "mcs", "hard": call["hard"], "fal": call["fal"], "result": call["result"]})
            midx.append(({"sig": rec["sig"], "base": [{"B": b, "A": a, "vec": None} for b, a in rec["conds"]], "qs": [], "via": "direct", "hard_formula": rec["hard_formula"]},
                         ["direct", rec["engine"], False], call))
    if rec_err:
        from common import machinery_failure

        machinery_failure(f"C15: the MCS recorder failed on {rec_err} calls")
    chk.add_eval(len(mevents))
    for ev in mevents:
        fam = {frozenset(k for k, ws in ev["fal"] if w in ws) for w in ev["hard"]}
        mins = [a for a in fam if not any(b < a for b in fam)]
        if len(mins) >= 2:
            chk.nontrivial(["mcs", ev["hard"], ev["fal"]])
    for rj in infer.validate_events(chk, mevents, "mcs"):
        case, cfg, call = midx[rj["reject"] - 1]
        base_txt = [M.render_cond(c["B"], c["A"]) for c in case["base"]]
        chk.violation(f"mcs|{cfg[0]}/{cfg[1]}|{';'.join(base_txt)}|hard={call['hard']}|ignore={call['ignore']}",
                      f"minimal correction subsets ({call['engine']}) on base {base_txt} (hard worlds {call['hard']}, ignore {call['ignore']}): code returned {call['result']}, the inclusion-minimal falsification sets are {rj['exp']}",
                      {"kind": "mcs", "config": cfg, "signature": case["sig"], "base": base_txt, "hard_formula": M.render(case["hard_formula"]) if case.get("hard_formula") else None,
                       "call": call, "expected": rj["exp"]})
    # step-level validation of the rc2 enumeration loop against the McsEnum machine
    from drivers import manager

    straces, sidx = [], []
    for (case, cfg, call) in midx:
        if "steps" not in call:
            continue
        fam = sorted({tuple(sorted(k for k, ws in call["fal"] if w in ws)) for w in call["hard"]})
        straces.append({"fam": [list(x) for x in fam], "steps": call["steps"], "result": [sorted(x) for x in call["result"]]})
        sidx.append((case, cfg, call))
    if len(straces) > (3000 if tier == "quick" else 40000):
        pick = sorted(rng.sample(range(len(straces)), 3000 if tier == "quick" else 40000))
        straces, sidx = [straces[i] for i in pick], [sidx[i] for i in pick]
    for rj in manager.validate_traces(chk, straces, "mcsloop", module="Trace_McsEnum", constants={"Filter": "sorted"}, invariants=("TraceNoSuperset",)):
        case, cfg, call = sidx[rj["reject"] - 1]
        base_txt = [M.render_cond(c["B"], c["A"]) for c in case["base"]]
        chk.violation(f"mcsloop|{cfg[0]}/{cfg[1]}|{';'.join(base_txt)}|hard={call['hard']}|ignore={call['ignore']}",
                      f"enumeration loop ({call['engine']}) on base {base_txt}: models reported {call['steps']}, step #{rj.get('at')} is not a step of McsEnum (remaining unblocked sets {rj.get('remaining')})",
                      {"kind": "mcs-loop", "config": cfg, "base": base_txt, "call": call, "model": rj})
    chk.cov["mcs_loops_validated_stepwise"] = len(straces)
    chk.cov["mcs_calls_validated"] = len(mevents)
    chk.cov["mcs_engines"] = backends
    chk.cov["exhaustive"] = False
    chk.cov["rule"] = (
        "(a) every conditional (B|A) with A, B formula trees of depth <= 1 over {a, b, Top, Bottom} (exhaustive), depth-2 trees against depth-0 (quick: 400 sampled, thorough: all), "
        "random depth-3 trees over 3 atoms: belief_base_to_cnf / query_to_cnf clause sets are decided per total assignment by independent SAT calls and TLC compares the satisfying "
        "assignments with the truth table it computes itself from the formula trees (EvalTree). (b) every call of minimal_correction_subsets / get_all_xi_i made while System W, lex and "
        "c-inference answer sampled multi-layer bases (rc2, z3, seeded rc2 SAT engines), plus direct calls on synthetic hard/soft/ignore combinations: the recorder derives, from the recorded "
        "clauses by independent SAT calls, the assignments satisfying the hard part and per conditional those violating its soft group; TLC requires result = inclusion-minimal falsification sets, "
        "each exactly once. Non-trivial: (a) conditionals with a connective; (b) calls whose family has >= 2 incomparable minimal sets."
    )
    chk.assumptions += ["PySAT minisat22 (independent of RC2) decides satisfiability of the recorded clause sets", "atom variables are found in the shared id pool by name"]
    if mevents:
        chk.sample({"mcs_event": mevents[len(mevents) // 3]})
    if events:
        e = events[len(events) // 2]
        chk.sample({"cnf_event": {"conditional": M.render_cond(e["B"], e["A"]), "v": e["v"], "f": e["f"], "nf": e["nf"]}})
    return chk.finish()
