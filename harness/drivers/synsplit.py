"""Conditional syntax splitting (synsplit/split.py) and the splitting postulates -- specification growth beyond the listed
properties (DESIGN 11.9).

 A. MC_SynSplit: TLC checks CRel (p, Z, W, lex, c) and CInd (W, lex, c) for the semantic core on every safe conditional
    syntax splitting of seeded splitting bases over 3 atoms and of every base of the 2-atom universe; CInd for p and Z is
    probed and must FAIL somewhere (non-vacuity: the literature says it does).
 B. split.py against SynSplit.tla: every list the module computes (all / genuine / safe / generalized safe splittings and the
    genuine ones among the safe) for seeded bases over 2-4 atoms is validated by TLC (Trace_SynSplit 'split' events).
 C. the real operators against the postulates: (i) small bases with a safe splitting (TLC re-establishes the precondition,
    'post' events), (ii) unions of two generated bases over disjoint signatures of 6-14 atoms each (plain syntax splitting,
    always safe for consistent parts) -- relevance and independence as 'equal' events of Trace_Relations.
"""
from __future__ import annotations

import json
import os
import random

import model as M
import tlc
from common import BUILD, Check, machinery_failure
from drivers import infer
from drivers import relations as rel
from drivers.present import rename_tree

PARTS3 = [([0], [1], [2]), ([1], [0], [2]), ([2], [0], [1]), ([0], [1, 2], []), ([1], [0, 2], []), ([2], [0, 1], []), ([0, 1], [2], [])]


# ----------------------------------------------------------------------------- A: the postulates on the specification
def _num(vec):
    n = 0
    for d in vec:
        n = n * 3 + d
    return n


def _vec_over(rng, S, na):
    vals, out = {}, []
    for w in range(1 << na):
        key = tuple((w >> (na - 1 - a)) & 1 for a in S)
        if key not in vals:
            vals[key] = rng.choice([0, 0, 1, 1, 2])
        out.append(vals[key])
    return out


def model_check(chk: Check, tier: str, rng: random.Random):
    n = 60 if tier == "quick" else 1500
    bases = []
    for _ in range(n):
        s1, s2, s3 = rng.choice(PARTS3)
        d = [_vec_over(rng, s1 + s3, 3) for _ in range(rng.choice([1, 1, 2]))] + [_vec_over(rng, s2 + s3, 3) for _ in range(rng.choice([1, 1, 2]))]
        bases.append(sorted(_num(v) for v in d))
    os.makedirs(os.path.join(BUILD, "in"), exist_ok=True)
    bf = os.path.join(BUILD, "in", f"{chk.prop}_split_bases.json")
    with open(bf, "w") as f:
        json.dump(bases, f)
    thms = {"CRel-p", "CRel-z", "CRel-w", "CRel-l", "CRel-c", "CInd-w", "CInd-l", "CInd-c"}
    probe = {"CInd-z", "CInd-p"}
    probed_fail = set()
    informative = 0
    for generalized in (False, True):
        cfg = tlc.cfg_text(invariants=["PostulatesHold", "Report"], constants={"NW": 8, "MaxB": 1, "FromFile": True, "Thms": thms, "Probe": probe, "CU": 3, "Generalized": generalized})
        res = tlc.run("MC_SynSplit", cfg, f"{chk.prop}_mc_split_{int(generalized)}", env={"BASES_FILE": bf}, timeout=3000)
        if res.violated:
            machinery_failure(f"MC_SynSplit (generalized={generalized}): {res.violated} violated by the specification itself\n{res.out[-2000:]}")
        tlc.require_ok(res, "MC_SynSplit")
        chk.add_tlc(f"MC_SynSplit:3atoms:generalized={generalized}", res, f"{n} seeded splitting bases over 3 atoms, every safe splitting, every query of the postulates' shape")
        for p in res.prints:
            if isinstance(p, list) and p and p[0] == "synsplit":
                informative += 1 if p[2] else 0
                probed_fail |= set(p[3])
    # the 2-atom universe: every base of <= 2 conditionals (plain syntax splittings only)
    cfg = tlc.cfg_text(invariants=["PostulatesHold", "Report"], constants={"NW": 4, "MaxB": 2 if tier == "thorough" else 1, "FromFile": False, "Thms": thms, "Probe": probe, "CU": 3, "Generalized": False})
    res = tlc.run("MC_SynSplit", cfg, f"{chk.prop}_mc_split_u2", timeout=3000)
    if res.violated:
        machinery_failure(f"MC_SynSplit (2-atom universe): {res.violated} violated by the specification itself\n{res.out[-2000:]}")
    tlc.require_ok(res, "MC_SynSplit")
    chk.add_tlc("MC_SynSplit:2atoms", res, "every base of the 2-atom universe")
    chk.cov["postulates_required"] = sorted(thms)
    chk.cov["postulates_probed_and_found_failing"] = sorted(probed_fail)
    chk.cov["bases_with_informative_safe_splitting"] = informative
    if not probed_fail >= {"CInd-z"}:
        machinery_failure("MC_SynSplit: CInd never failed for System Z -- the postulate check is vacuous on this sample")
    if informative == 0:
        machinery_failure("MC_SynSplit: no base with an informative safe splitting")


# ----------------------------------------------------------------------------- B: split.py against the specification
def gen_split_case(rng, na=None):
    """A base over `na` atoms built along a partition (S1, S2, S3) of the signature (a fifth unstructured)."""
    na = na or rng.choice([2, 3, 3, 3, 4])
    sig = list(infer.SIG[:na])
    idx = list(range(na))
    rng.shuffle(idx)
    k3 = rng.choice([0, 0, 1, 1, 2]) if na >= 3 else rng.choice([0, 0, 1])
    k3 = min(k3, na - 1)
    s3 = idx[:k3]
    rest = idx[k3:]
    cut = rng.randrange(0, len(rest) + 1) if rng.random() < 0.25 else rng.randrange(1, len(rest)) if len(rest) >= 2 else 1
    s1, s2 = rest[:cut], rest[cut:]
    unstructured = rng.random() < 0.2
    conds, seen = [], set()
    for side in (s1, s2):
        atoms = [sig[i] for i in (idx if unstructured else side + s3)]
        if not atoms:
            continue
        for _ in range(rng.choice([1, 1, 2, 2, 3])):
            c = infer.gen_cond(atoms, rng)
            t = M.render_cond(c["B"], c["A"])
            if t not in seen:
                seen.add(t)
                conds.append((c["B"], c["A"]))
    if rng.random() < 0.3 and s3:
        c = infer.gen_cond([sig[i] for i in s3], rng)  # a conditional over S3 alone (belongs to both sides)
        if M.render_cond(c["B"], c["A"]) not in seen:
            conds.append((c["B"], c["A"]))
    rng.shuffle(conds)
    return {"sig": sig, "base": conds, "part": [sorted(s1), sorted(s2), sorted(s3)]}


def _exec_split(case):
    """Runs synsplit/split.py on the case; everything the module returns, keyed by position of the conditional."""
    out = {"error": None}
    try:
        from pysmt.shortcuts import get_atoms

        from synsplit import split

        sig = case["sig"]
        conds = [M.make_conditional(B, A) for B, A in case["base"]]
        pos = {id(c): i + 1 for i, c in enumerate(conds)}
        apos = {a: i + 1 for i, a in enumerate(sig)}
        out["at"] = [sorted(apos[x.symbol_name()] for x in (get_atoms(c.antecedence) | get_atoms(c.consequence))) for c in conds]
        sigma, delta = set(sig), set(conds)
        enc = lambda lst: [[sorted(apos[a] for a in s3), sorted(apos[a] for a in s1), sorted(apos[a] for a in s2), sorted(pos[id(c)] for c in d1), sorted(pos[id(c)] for c in d2)]
                           for (s3, s1, s2, d1, d2) in lst]
        all_ = split.calculate_conditional_syntax_splittings(sigma, delta)
        safe = split.filter_safe_conditional_syntax_splittings(all_)
        gsafe = split.filter_safe_conditional_syntax_splittings(all_, generalized=True)
        out.update({"all": enc(all_), "genuine": enc(split.filter_genuine_splittings(all_)), "safe": enc(safe), "gsafe": enc(gsafe),
                    "gen_safe": enc(split.filter_genuine_splittings(safe)), "gen_gsafe": enc(split.filter_genuine_splittings(gsafe))})
    except BaseException as e:
        if isinstance(e, (KeyboardInterrupt, SystemExit)):
            raise
        out["error"] = type(e).__name__ + ": " + str(e)[:300]
    return out


def validate(chk: Check, events, tag):
    if not events:
        return []
    os.makedirs(os.path.join(BUILD, "in"), exist_ok=True)
    tf = os.path.join(BUILD, "in", f"{chk.prop}_{tag}.json")
    with open(tf, "w") as f:
        json.dump(events, f)
    res = tlc.run("Trace_SynSplit", tlc.cfg_text(), f"{chk.prop}_{tag}", env={"TRACE_FILE": tf}, timeout=3000)
    tlc.require_ok(res, "Trace_SynSplit")
    if res.distinct != 1 + 2 * len(events):
        machinery_failure(f"Trace_SynSplit consumed {res.distinct} states, expected {1 + 2 * len(events)}")
    chk.add_tlc(f"Trace_SynSplit:{tag}", res, f"{len(events)} events validated")
    chk.add_traces(len(events))
    rej = [p for p in res.prints if isinstance(p, dict) and "reject" in p]
    for r in rej:
        if any(isinstance(w, str) and w.startswith("harness:") for w in r["what"]):
            machinery_failure(f"Trace_SynSplit: {r['what']} for event {json.dumps(events[r['reject'] - 1])[:600]}")
    return rej


def run_split(chk: Check, tier: str, rng: random.Random):
    n = 160 if tier == "quick" else 4000
    cases = [gen_split_case(rng) for _ in range(n)]
    cases = [c for c in cases if c["base"]]
    results = infer.pool_map(_exec_split, cases)
    events, idx = [], []
    for ci, (case, r) in enumerate(zip(cases, results)):
        doc = {"signature": case["sig"], "base": [M.render_cond(*c) for c in case["base"]]}
        if r["error"]:
            chk.violation(f"synsplit/error|{';'.join(doc['base'])}", f"synsplit.split raised {r['error']} on {doc}", {"kind": "synsplit", "case": doc, "error": r["error"]})
            continue
        na = len(case["sig"])
        ev = {"ev": "split", "na": na, "base": [M.cond_vec(B, A, case["sig"]) for B, A in case["base"]], "at": r["at"]}
        for k in ("all", "genuine", "safe", "gsafe", "gen_safe", "gen_gsafe"):
            ev[k] = r[k]
        events.append(ev)
        idx.append(ci)
        chk.add_eval(6)
        if any(s[1] and s[2] and s[3] and s[4] for s in r["safe"]):
            chk.nontrivial(["split", doc["base"]])
    chk.cov["split_cases"] = len(events)
    chk.cov["split_cases_with_safe_two_sided_splitting"] = sum(1 for e in events if any(s[1] and s[2] and s[3] and s[4] for s in e["safe"]))
    chk.cov["split_cases_where_generalized_safe_differs"] = sum(1 for e in events if len(e["gsafe"]) != len(e["safe"]))
    for rj in validate(chk, events, "split"):
        case = cases[idx[rj["reject"] - 1]]
        ev = events[rj["reject"] - 1]
        doc = {"signature": case["sig"], "base": [M.render_cond(*c) for c in case["base"]], "trees": case["base"]}
        chk.violation(f"synsplit|{';'.join(doc['base'])}|{rj['what']}",
                      f"synsplit.split on {doc['base']} over {case['sig']}: lists {rj['what']} differ from SynSplit.tla",
                      {"kind": "synsplit", "case": doc, "wrong_lists": rj["what"], "reported": {k: ev[k] for k in ("all", "genuine", "safe", "gsafe", "gen_safe", "gen_gsafe")}})
    if events:
        e = events[len(events) // 2]
        chk.sample({"split_event": {k: e[k] for k in ("na", "at", "safe")}, "base": [M.render_cond(*c) for c in cases[idx[len(events) // 2]]["base"]]})


# ----------------------------------------------------------------------------- C: the real operators against the postulates
def _is_safe_split(case):
    """harness-side precondition (re-established by TLC): strongly consistent, both sub-bases non-empty and proper, safe."""
    import pysem

    sig, conds = case["sig"], case["base"]
    na = len(sig)
    s1, s2, s3 = case["part"]
    if not s1 or not s2:
        return False
    vecs = [M.cond_vec(B, A, sig) for B, A in conds]
    fin, inf = pysem.part(vecs)
    if inf or not fin:
        return False
    at = [{sig.index(a) for a in (M.atoms_of(B) | M.atoms_of(A))} for B, A in conds]
    d1 = [k for k in range(len(conds)) if at[k] <= set(s1) | set(s3)]
    d2 = [k for k in range(len(conds)) if at[k] <= set(s2) | set(s3)]
    if set(d1) | set(d2) != set(range(len(conds))) or not d1 or not d2 or len(d1) == len(conds) and len(d2) == len(conds):
        return False
    bit = lambda w, a: (w >> (na - 1 - a)) & 1
    for free, D in ((s2, d2), (s1, d1)):
        fixed = [a for a in range(na) if a not in free]
        for w in range(1 << na):
            if not any(all(bit(v, a) == bit(w, a) for a in fixed) and all(vecs[k][v] != 2 for k in D) for v in range(1 << na)):
                return False
    case["d"] = [d1, d2]
    return True


def _conj(fs):
    out = None
    for f in fs:
        out = f if out is None else M.And(out, f)
    return out if out is not None else M.TOP


def _post_queries(rng, case, side, nq):
    sig = case["sig"]
    s = case["part"]
    own, other, s3 = [sig[i] for i in s[side]], [sig[i] for i in s[1 - side]], [sig[i] for i in s[2]]
    qs_plain, qs_ind = [], []
    for _ in range(nq):
        A = infer._shape_formula(own, rng)
        C = infer._shape_formula(own, rng, allow_const=False)
        D = _conj([M.V(a) if rng.random() < 0.5 else M.Not(M.V(a)) for a in s3])
        E = _conj([M.V(a) if rng.random() < 0.5 else M.Not(M.V(a)) for a in other]) if rng.random() < 0.6 else infer._shape_formula(other, rng, allow_const=False)
        if not M.models(E, other):
            E = M.V(other[0])
        AD = A if not s3 else M.And(A, D)
        qs_plain.append((C, AD))
        qs_ind.append((C, M.And(AD, E)))
    return qs_plain, qs_ind


POST_CONFIGS = [("p", "", "CRel"), ("z", "", "CRel"), ("w", "rc2", "CRel"), ("w", "z3", "CRel"), ("l", "rc2", "CRel"), ("l", "z3", "CRel"), ("c", "rc2", "CRel"),
                ("w", "rc2", "CInd"), ("w", "z3", "CInd"), ("l", "rc2", "CInd"), ("l", "z3", "CInd"), ("c", "rc2", "CInd")]


def _exec_post(args):
    case, side, qs_plain, qs_ind = args
    import impl

    sig = case["sig"]
    sub = [case["base"][k] for k in case["d"][side]]
    out = []
    for (s, be, kind) in POST_CONFIGS:
        try:
            full = impl.ask(impl.build_base(sig, case["base"]), impl.build_queries(qs_plain), s, be, False)
            if kind == "CRel":
                other = impl.ask(impl.build_base(sig, sub), impl.build_queries(qs_plain), s, be, False)
            else:
                other = impl.ask(impl.build_base(sig, case["base"]), impl.build_queries(qs_ind), s, be, False)
            out.append({"sys": s, "backend": be, "kind": kind, "raised": full["raised"] or other["raised"], "exc": full["exc"] or other["exc"], "full": full["obs"], "other": other["obs"]})
        except BaseException as e:
            if isinstance(e, (KeyboardInterrupt, SystemExit)):
                raise
            out.append({"sys": s, "backend": be, "kind": kind, "raised": True, "exc": type(e).__name__ + ": " + str(e)[:200], "full": [], "other": []})
    return out


def run_postulates_small(chk: Check, tier: str, rng: random.Random):
    want = 40 if tier == "quick" else 1200
    tasks = []
    tries = 0
    while len(tasks) < want and tries < want * 60:
        tries += 1
        case = gen_split_case(rng, rng.choice([3, 3, 4]))
        if not case["base"] or not _is_safe_split(case):
            continue
        side = rng.randrange(2)
        qp, qi = _post_queries(rng, case, side, 5)
        tasks.append((case, side, qp, qi))
    results = infer.pool_map(_exec_post, tasks, chunksize=1)
    events, idx = [], []
    for ti, ((case, side, qp, qi), res) in enumerate(zip(tasks, results)):
        sig = case["sig"]
        at = [sorted(sig.index(a) + 1 for a in (M.atoms_of(B) | M.atoms_of(A))) for B, A in case["base"]]
        s = case["part"]
        for r in res:
            doc = {"signature": sig, "base": [M.render_cond(*c) for c in case["base"]], "splitting": {"s1": [sig[i] for i in s[0]], "s2": [sig[i] for i in s[1]], "s3": [sig[i] for i in s[2]]},
                   "side": side + 1, "queries": [M.render_cond(*c) for c in qp], "queries_ind": [M.render_cond(*c) for c in qi]}
            if r["raised"]:
                chk.violation(f"synsplit/post-raise|{r['sys']}/{r['backend']}|{';'.join(doc['base'])}", f"{r['sys']}/{r['backend']} raised on a strongly consistent base: {r['exc']}", {"kind": "synsplit-post", "case": doc, "exc": r["exc"]})
                continue
            events.append({"ev": "post", "na": len(sig), "base": [M.cond_vec(B, A, sig) for B, A in case["base"]], "at": at,
                           "s3": [i + 1 for i in s[2]], "s1": [i + 1 for i in s[side]], "s2": [i + 1 for i in s[1 - side]], "kind": r["kind"], "sys": f"{r['sys']}/{r['backend'] or '-'}",
                           "full": r["full"], "other": r["other"]})
            idx.append((ti, r, doc))
            chk.add_eval(len(r["full"]))
            if "T" in r["full"] and "F" in r["full"]:
                chk.nontrivial(["post", doc["base"], doc["queries"], r["sys"], r["backend"], r["kind"]])
    chk.cov["postulate_instances_small"] = len(events)
    for rj in validate(chk, events, "post"):
        ti, r, doc = idx[rj["reject"] - 1]
        chk.violation(f"synsplit/post|{r['kind']}|{r['sys']}/{r['backend']}|{';'.join(doc['base'])}|{';'.join(doc['queries'])}",
                      f"{r['kind']} broken by {r['sys']}/{r['backend']}: base {doc['base']} splitting {doc['splitting']} side {doc['side']}: "
                      f"answers from the whole base {r['full']} vs {'the sub-base' if r['kind'] == 'CRel' else 'with an added condition over the other side'} {r['other']}",
                      {"kind": "synsplit-post", "case": doc, "postulate": r["kind"], "config": [r["sys"], r["backend"]], "full": r["full"], "other": r["other"]})


def _exec_union(args):
    case, configs, budget = args
    import impl

    out = []
    for (s, be, _w) in configs:
        row = {"sys": s, "backend": be}
        try:
            for name, base, qs in (("full", case["base"], case["qs"]), ("sub", case["sub"], case["qs"]), ("ind", case["base"], case["qs_ind"])):
                r = impl.ask(impl.build_base(case["sig"], base), impl.build_queries(qs), s, be, False, limit=max(300, 4 * budget), total_timeout=budget)
                if r["raised"]:
                    row["raised"] = r["exc"]
                    break
                row[name] = ["X" if (x["to"] or x["pto"]) else x["ans"] for x in r["rows"]]
        except BaseException as e:
            if isinstance(e, (KeyboardInterrupt, SystemExit)):
                raise
            row["raised"] = type(e).__name__ + ": " + str(e)[:200]
        out.append(row)
    return out


def run_postulates_union(chk: Check, tier: str, rng: random.Random):
    """Plain syntax splitting at sizes beyond the oracle: D = D1 u D2 over disjoint signatures."""
    n = 10 if tier == "quick" else 200
    cases = []
    for _ in range(n):
        a1, a2 = rng.randint(5, 12), rng.randint(4, 10)
        sig1, c1 = rel.layered_base(rng, a1, rng.randint(max(3, a1 // 2), a1))
        sig2, c2 = rel.layered_base(rng, a2, rng.randint(max(3, a2 // 2), a2))
        mp = {a: "y" + a[1:] for a in sig2}
        sig2 = [mp[a] for a in sig2]
        c2 = [(rename_tree(B, mp), rename_tree(A, mp)) for B, A in c2]
        qs = rel.gen_queries(sig1, c1, rng, 6)
        qs_ind = []
        for (B, A) in qs:
            E = _conj([rel._lit(sig2, rng) for _ in range(rng.choice([1, 1, 2]))])
            if not M.models(E, sorted(M.atoms_of(E))):
                E = M.V(sig2[0])
            qs_ind.append((B, M.And(A, E)))
        base = c1 + c2
        rng.shuffle(base)
        cases.append({"sig": sig1 + sig2, "base": base, "sub": c1, "qs": qs, "qs_ind": qs_ind})
    configs = [("p", "", False), ("z", "", False), ("w", "rc2", False), ("w", "z3", False), ("l", "rc2", False), ("l", "z3", False), ("c", "rc2", False)]
    results = infer.pool_map(_exec_union, [(c, configs, 60) for c in cases], chunksize=1)
    events, idx = [], []
    for ci, (case, res) in enumerate(zip(cases, results)):
        doc = {"signature": case["sig"], "base": [M.render_cond(*c) for c in case["base"]], "sub_base": [M.render_cond(*c) for c in case["sub"]],
               "queries": [M.render_cond(*c) for c in case["qs"]], "queries_ind": [M.render_cond(*c) for c in case["qs_ind"]]}
        if all("raised" in r for r in res):
            continue  # one of the generated parts is inconsistent: every operator refuses
        for r in res:
            name = rel.cfg_name(r["sys"], r["backend"])
            if "raised" in r:
                chk.violation(f"synsplit/union-raise|{name}|{';'.join(doc['base'])[:300]}", f"{name} raised ({r['raised']}) while other operators answered", {"kind": "synsplit-union", "case": doc, "exc": r["raised"]})
                continue
            events.append({"ev": "equal", "ans": {name + "_full": r["full"], name + "_sub": r["sub"]}})
            idx.append((ci, name, "Rel", doc, r))
            if r["sys"] in ("w", "l", "c"):
                events.append({"ev": "equal", "ans": {name + "_full": r["full"], name + "_ind": r["ind"]}})
                idx.append((ci, name, "Ind", doc, r))
            chk.add_eval(len(r["full"]))
            if "T" in r["full"] and "F" in r["full"]:
                chk.nontrivial(["union", doc["base"], name])
    chk.cov["union_cases"] = len(cases)
    chk.cov["union_relation_events"] = len(events)
    for rj in rel.validate_rel(chk, events, "union"):
        ci, name, kind, doc, r = idx[rj["reject"] - 1]
        chk.violation(f"synsplit/union|{kind}|{name}|{';'.join(doc['base'])[:300]}|{rj['what']}",
                      f"{'relevance' if kind == 'Rel' else 'independence'} broken by {name} on the union of two bases over disjoint signatures, query positions {rj['what']}: "
                      f"whole base {r['full']}, {'sub-base ' + str(r['sub']) if kind == 'Rel' else 'with a condition over the other signature ' + str(r['ind'])}",
                      {"kind": "synsplit-union", "case": doc, "postulate": kind, "config": name, "answers": {k: r.get(k) for k in ("full", "sub", "ind")}})


def run(chk: Check, tier: str):
    rng = random.Random(chk.seed)
    model_check(chk, tier, rng)
    run_split(chk, tier, rng)
    run_postulates_small(chk, tier, rng)
    run_postulates_union(chk, tier, rng)
    chk.cov["rule"] = __doc__.strip()
    chk.assumptions += ["postulates are model-checked on seeded 3-atom splitting bases and the 2-atom universe only (bounded); the operators are then held to them at any size",
                        "language of a conditional = atoms occurring in its formulas (syntactic, as split.py reads them)"]
    return chk.finish()
