"""Runs the TLA+ proof system on a proof module of /verif/spec (unbounded companions of model-checked machines)."""
from __future__ import annotations

import os
import re
import shutil
import subprocess
import time

from common import BUILD, VERIF


def prove(module: str, timeout: int = 900):
    """Returns {'available', 'proved', 'obligations', 'wall_s', 'out'}; the module is copied to the build directory so that
    tlapm's cache is not written under /verif/spec."""
    exe = shutil.which("tlapm")
    if not exe:
        return {"available": False, "proved": False, "refuted": False, "obligations": 0, "wall_s": 0.0, "out": "tlapm not on PATH"}
    d = os.path.join(BUILD, "tlaps", module)
    shutil.rmtree(d, ignore_errors=True)
    os.makedirs(d)
    for f in os.listdir(os.path.join(VERIF, "spec")):  # the proof module and whatever it extends
        if f.endswith(".tla"):
            shutil.copy(os.path.join(VERIF, "spec", f), d)
    t0 = time.time()
    try:
        p = subprocess.run([exe, "--toolbox", "0", "0", module + ".tla"], cwd=d, capture_output=True, text=True, timeout=timeout)
        out = p.stdout + p.stderr
    except subprocess.TimeoutExpired:
        out = "timeout"
    m = re.search(r"All (\d+) obligations? proved", out)
    refuted = bool(re.search(r"obligations? failed|Could not prove", out))
    return {"available": True, "proved": bool(m), "refuted": refuted, "obligations": int(m.group(1)) if m else 0, "wall_s": round(time.time() - t0, 1), "out": out[-1500:]}
