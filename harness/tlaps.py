"""Runs the TLA+ proof system on a proof module of /verif/spec (unbounded companions of model-checked machines).

The outcome is RECORDED in the evidence and never decides a check: the proofs are about the specification files, which a
change of the code under test cannot alter, and a prover missing a time limit on a loaded machine must not break a check."""
from __future__ import annotations

import os
import re
import shutil
import subprocess
import time

from common import BUILD, VERIF


def prove(module: str, timeout: int = 300):
    try:
        return _prove(module, timeout)
    except Exception as e:  # never let the prover's environment break a check
        return {"available": False, "proved": False, "refuted": False, "obligations": 0, "wall_s": 0.0, "out": type(e).__name__ + ": " + str(e)[:300]}


def _prove(module: str, timeout: int):
    """Returns {'available', 'proved', 'obligations', 'wall_s', 'out'}; the module is copied to the build directory so that
    tlapm's cache is not written under /verif/spec."""
    exe = shutil.which("tlapm")
    if not exe:
        return {"available": False, "proved": False, "refuted": False, "obligations": 0, "wall_s": 0.0, "out": "tlapm not on PATH"}
    d = os.path.join(BUILD, "tlaps", module)
    shutil.rmtree(d, ignore_errors=True)
    os.makedirs(d)
    for f in os.listdir(os.path.join(VERIF, "spec")):  # the proof module and whatever it extends
        if f.endswith(".tla"):
            shutil.copy(os.path.join(VERIF, "spec", f), d)
    t0 = time.time()
    try:
        # the back-end time limits are stretched: on a loaded machine a 10 s Zenon limit is otherwise missed now and then
        p = subprocess.run([exe, "--stretch", "6", "--toolbox", "0", "0", module + ".tla"], cwd=d, capture_output=True, text=True, timeout=timeout)
        out = p.stdout + p.stderr
        if not re.search(r"All (\d+) obligations? proved", out):  # one more attempt; proved obligations are cached
            p = subprocess.run([exe, "--stretch", "12", "--toolbox", "0", "0", module + ".tla"], cwd=d, capture_output=True, text=True, timeout=timeout)
            out = p.stdout + p.stderr
    except subprocess.TimeoutExpired:
        out = "timeout"
        subprocess.run(["pkill", "-f", "tlapm.*" + module], capture_output=True)
    m = re.search(r"All (\d+) obligations? proved", out)
    refuted = bool(re.search(r"obligations? failed|Could not prove", out))
    return {"available": True, "proved": bool(m), "refuted": refuted, "obligations": int(m.group(1)) if m else 0, "wall_s": round(time.time() - t0, 1), "out": out[-1500:]}
