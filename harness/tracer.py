"""External recorder: wraps the public entry points of the real code FROM OUTSIDE (no source hooks) and logs one
event per spec action, at the return of the wrapped call (also on the error path).

All events of all processes go to one file opened with O_APPEND (atomic line writes), so file order is one global
linearisation; a worker process's event is written before its parent can observe the worker's result.
Switched on only when a check installs it (the checks run with INFOCF_VERIF=1); nothing in /repo is modified.
"""
from __future__ import annotations

import json
import multiprocessing
import os
import threading

_state = {"fd": None, "path": None, "installed": False, "undo": [], "mids": {}, "next_mid": 0, "lock": threading.Lock()}


def emit(rec: dict):
    fd = _state["fd"]
    if fd is None:
        return
    rec["pid"] = os.getpid()
    os.write(fd, (json.dumps(rec, default=str) + "\n").encode())


def mid_of(es) -> int:
    """manager id: a marker stored in the epistemic_state dict itself (the dict is shared with the per-call operator
    instances and inherited by forked workers; id() values may be reused after garbage collection)."""
    m = es.get("_verif_mid")
    if m is None:
        _state["next_mid"] += 1
        m = _state["next_mid"]
        try:
            es["_verif_mid"] = m
        except Exception:
            pass
    return m


def qid_of(cond):
    return getattr(cond, "_vq", None)


def b2s(x):
    return "T" if x is True or str(x) == "True" else ("F" if x is False or str(x) == "False" else "E")


def install(path: str):
    """Open the trace file and wrap the entry points. Idempotent per process."""
    if _state["installed"]:
        uninstall()
    _state["fd"] = os.open(path, os.O_WRONLY | os.O_CREAT | os.O_APPEND, 0o644)
    _state["path"] = path
    _state["mids"] = {}
    _state["next_mid"] = 0
    from inference import inference as inf_mod
    from inference import inference_manager as im

    IM = im.InferenceManager
    Inf = inf_mod.Inference

    o_init = IM.__init__

    def w_init(self, belief_base, inference_system, *a, **kw):
        o_init(self, belief_base, inference_system, *a, **kw)
        emit({"ev": "new", "mid": mid_of(self.epistemic_state), "system": self.epistemic_state["inference_system"],
              "backend": self.epistemic_state["pmaxsat_solver"], "weakly": bool(self.epistemic_state["weakly"]),
              "nconds": len(belief_base.conditionals)})

    o_inf = IM.inference

    def w_inference(self, queries, *a, **kw):
        mid = mid_of(self.epistemic_state)
        names = ["total_timeout", "inference_timeout", "preprocessing_timeout", "queries_name", "multi_inference", "decimals"]
        args = dict(zip(names, a))
        args.update(kw)
        emit({"ev": "call", "mid": mid, "batch": [[_int(k), qid_of(c), str(c)] for k, c in queries.conditionals.items()],
              "multi": bool(args.get("multi_inference", False)),
              "budgets": [args.get("total_timeout", 0), args.get("preprocessing_timeout", 0), args.get("inference_timeout", 0)]})
        try:
            df = o_inf(self, queries, *a, **kw)
        except BaseException as e:
            emit({"ev": "raise", "mid": mid, "exc": type(e).__name__ + ": " + str(e)[:200], "children": len(multiprocessing.active_children())})
            raise
        rows, cols = [], []
        for _, r in df.iterrows():
            rows.append([_int(r["index"]), str(r["query"]), b2s(r["result"]), bool(r["inference_timed_out"]), bool(r["preprocessing_timed_out"])])
            try:
                cols.append([_int(r["signature_size"]), _int(r["number_conditionals"]), str(r["inference_system"]), str(r["smt_solver"]), str(r["pmaxsat_solver"]),
                             str(r["belief_base"]), str(r["queries"]), float(r["preprocessing_time"]) >= 0, float(r["inference_time"]) >= 0])
            except Exception as e:  # a missing / malformed column is itself an observation
                cols.append([-1, -1, "?", "?", "?", "?", type(e).__name__, False, False])
        es = self.epistemic_state
        bb = es["belief_base"]
        cfg = [len(bb.signature), len(bb.conditionals), str(es["inference_system"]), str(es["smt_solver"]), str(es["pmaxsat_solver"]), str(bb.name), str(queries.name)]
        emit({"ev": "return", "mid": mid, "rows": rows, "cfg": cfg, "cols": cols, "children": len(multiprocessing.active_children())})
        return df

    o_prep = Inf.preprocess_belief_base

    def w_prep(self, preprocessing_timeout):
        es = self.epistemic_state
        mid = mid_of(es)
        was_done = bool(es["preprocessing_done"])
        try:
            r = o_prep(self, preprocessing_timeout)
        except AssertionError as e:
            emit({"ev": "prep", "mid": mid, "outcome": "refuse", "why": str(e)[:80]})
            raise
        except BaseException as e:
            emit({"ev": "prep", "mid": mid, "outcome": "error", "why": type(e).__name__ + ": " + str(e)[:120]})
            raise
        if was_done:
            out = "skip"
        elif es["preprocessing_done"]:
            out = "run"
        elif es["preprocessing_timed_out"]:
            out = "timeout"
        else:
            out = "unknown"
        emit({"ev": "prep", "mid": mid, "outcome": out, "budget": preprocessing_timeout, "ptime_ms": es["preprocessing_time"]})
        return r

    o_gen = Inf.general_inference

    def w_general(self, query, weakly=None, deadline=None):
        mid = mid_of(self.epistemic_state)
        d = getattr(query, "_vdelay", 0)
        if d:  # completion-order control for parallel evaluation (set by the C13 driver only)
            import time

            time.sleep(d)
        try:
            r = o_gen(self, query, weakly=weakly, deadline=deadline)
        except TimeoutError:
            emit({"ev": "answer", "mid": mid, "q": qid_of(query), "text": str(query), "result": "F", "to": True})
            raise
        except BaseException as e:
            emit({"ev": "answer-error", "mid": mid, "q": qid_of(query), "text": str(query), "exc": type(e).__name__ + ": " + str(e)[:200]})
            raise
        emit({"ev": "answer", "mid": mid, "q": qid_of(query), "text": str(query), "result": b2s(r), "to": False})
        return r

    o_create = im.create_inference_instance

    def w_create(epistemic_state):
        inst = o_create(epistemic_state)
        emit({"ev": "instance", "mid": mid_of(epistemic_state), "system": epistemic_state["inference_system"], "backend": epistemic_state["pmaxsat_solver"],
              "cls": type(inst).__name__})
        return inst

    im.create_inference_instance = w_create
    IM.__init__ = w_init
    IM.inference = w_inference
    Inf.preprocess_belief_base = w_prep
    Inf.general_inference = w_general
    _state["undo"] = [(im, "create_inference_instance", o_create), (IM, "__init__", o_init), (IM, "inference", o_inf), (Inf, "preprocess_belief_base", o_prep), (Inf, "general_inference", o_gen)]
    _state["installed"] = True


def uninstall():
    for cls, name, orig in _state["undo"]:
        setattr(cls, name, orig)
    _state["undo"] = []
    if _state["fd"] is not None:
        os.close(_state["fd"])
    _state["fd"] = None
    _state["installed"] = False


def read_events(path):
    out = []
    with open(path) as f:
        for line in f:
            line = line.strip()
            if line:
                out.append(json.loads(line))
    return out


def _int(x):
    try:
        return int(x)
    except Exception:
        return str(x)
