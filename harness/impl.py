"""Thin adapters that drive the REAL InfOCF code (imported from /repo's current working tree) and
project what it returns to spec values. No semantics lives here."""
from __future__ import annotations

import os
import signal
import sys
import warnings

from common import REPO

if REPO not in sys.path:
    sys.path.insert(0, REPO)
os.environ.setdefault("INFOCF_LOGLEVEL", "ERROR")
warnings.filterwarnings("ignore")

import model as M  # noqa: E402

SYSNAME = {"p": "p-entailment", "z": "system-z", "w": "system-w", "l": "lex_inf", "c": "c-inference"}
BACKENDS = {"p": [""], "z": [""], "w": ["rc2", "z3"], "l": ["rc2", "z3"], "c": ["rc2"]}


class CallTimeout(Exception):
    pass


def _alarm(signum, frame):
    raise CallTimeout("harness limit")


def with_limit(seconds: int, fn, *a, **kw):
    """Run fn under a generous wall-clock limit (termination guard; >= 1000x normal run time)."""
    old = signal.signal(signal.SIGALRM, _alarm)
    signal.alarm(seconds)
    try:
        return fn(*a, **kw)
    finally:
        signal.alarm(0)
        signal.signal(signal.SIGALRM, old)


def build_base(sig, conds, via="api", keys=None, name="kb", bb_sig=None):
    """conds: list of (B, A) formula trees. via 'parser' goes through the real .cl parser (keys 1..n)."""
    if via == "parser":
        from parser.Wrappers import parse_belief_base

        return parse_belief_base(M.render_base(bb_sig or sig, conds, name))
    keys = keys or list(range(1, len(conds) + 1))
    return M.make_base(bb_sig or sig, {k: c for k, c in zip(keys, conds)}, name)


def build_queries(conds, via="api", keys=None):
    if via == "parser":
        from parser.Wrappers import parse_queries

        return parse_queries(M.render_queries(conds))
    keys = keys or list(range(1, len(conds) + 1))
    return M.make_queries({k: c for k, c in zip(keys, conds)})


def ask(bb, queries, system: str, backend: str = "rc2", weakly: bool = False, limit: int = 120, **kw):
    """One fresh manager, one inference() call. Returns dict(raised, exc, obs, rows)."""
    from inference.inference_manager import InferenceManager

    try:
        def call():
            mgr = InferenceManager(bb, SYSNAME.get(system, system), pmaxsat_solver=backend or "rc2", weakly=weakly)
            return mgr.inference(queries, **kw)

        df = with_limit(limit, call)
    except CallTimeout:
        return {"raised": True, "exc": "HarnessTimeout", "obs": [], "rows": []}
    except BaseException as e:  # AssertionError is the documented refusal; everything else is recorded too
        if isinstance(e, (KeyboardInterrupt, SystemExit)):
            raise
        return {"raised": True, "exc": type(e).__name__ + ": " + str(e)[:200], "obs": [], "rows": []}
    return {"raised": False, "exc": None, "obs": [b2s(x) for x in df["result"].tolist()], "rows": project_table(df)}


def b2s(x) -> str:
    if x is True or (hasattr(x, "dtype") and bool(x) is True and str(x) == "True"):
        return "T"
    if x is False or str(x) == "False":
        return "F"
    return "E"


def project_table(df) -> list:
    rows = []
    for _, r in df.iterrows():
        rows.append(
            {
                "key": _int(r["index"]),
                "text": str(r["query"]),
                "ans": b2s(r["result"]),
                "to": bool(r["inference_timed_out"]),
                "pto": bool(r["preprocessing_timed_out"]),
            }
        )
    return rows


def _int(x):
    try:
        return int(x)
    except Exception:
        return str(x)
