"""Which rc2-<engine> values are usable with the installed PySAT: each candidate is smoke-tested in its own
subprocess (some engines abort the interpreter), through the same calls OptimizerRC2 makes."""
from __future__ import annotations

import subprocess
import sys
from concurrent.futures import ThreadPoolExecutor

SMOKE = r"""
import sys
from pysat.examples.rc2 import RC2
from pysat.formula import WCNF
w = WCNF()
w.append([1, 2]); w.append([-1], weight=1); w.append([-2], weight=1)
with RC2(w, solver=sys.argv[1]) as r:
    m = r.compute(); assert m is not None and r.cost == 1
    r.add_clause([-1, 3]); r.add_clause([-2, 3])
    m = r.compute(); assert m is not None
    r.add_clause([-3])
    assert r.compute() is None
# degenerate inputs that the operators do produce: contradictory units, and a formula without any clause
w2 = WCNF(); w2.append([1]); w2.append([-1]); w2.append([2], weight=1)
with RC2(w2, solver=sys.argv[1]) as r:
    assert r.compute() is None
with RC2(WCNF(), solver=sys.argv[1]) as r:
    assert r.compute() is not None
print("ok")
"""


def candidate_names():
    from pysat.solvers import SolverNames

    names = []
    for attr in dir(SolverNames):
        if attr.startswith("_"):
            continue
        v = getattr(SolverNames, attr)
        if isinstance(v, tuple) and v:
            names.append(sorted(v, key=len)[0])
    return sorted(set(names))


def _try(name):
    try:
        p = subprocess.run([sys.executable, "-c", SMOKE, name], capture_output=True, text=True, timeout=60)
        return name, p.returncode == 0 and "ok" in p.stdout, (p.stderr or "")[-200:]
    except Exception as e:
        return name, False, str(e)


def usable_engines():
    names = candidate_names()
    with ThreadPoolExecutor(8) as ex:
        res = list(ex.map(_try, names))
    ok = [n for n, good, _ in res if good]
    bad = {n: err.strip().splitlines()[-1] if err.strip() else "failed" for n, good, err in res if not good}
    return ok, bad


if __name__ == "__main__":
    print(usable_engines())
