"""bin/check <Cxx> --replay <file>: re-run the check that produced a replay file with the recorded seed and tier and
report whether the recorded violation (same fingerprint) shows up again on the current /repo tree.

Every replay file carries the concrete failing case (input / history / schedule, expected and observed values) for a
human reader; reproduction itself is by deterministic re-execution of the whole check under the recorded seed, which
regenerates exactly the same cases. Exit 1 + VIOLATION line if the violation reproduces, 0 if it does not."""
import json
import os
import sys


def run(prop: str, path: str) -> int:
    with open(path) as f:
        rp = json.load(f)
    if rp.get("property") != prop:
        print(f"replay file belongs to {rp.get('property')}, not {prop}")
        return 2
    os.environ["VERIF_SEED"] = str(rp.get("seed", os.environ.get("VERIF_SEED", "20261004")))
    import common
    import props

    want = rp["fingerprint"]
    seen = {}
    orig_finish = common.Check.finish

    def finish(self):
        seen["fps"] = list(self.all_fingerprints)
        seen["viol"] = list(self.violations)
        return orig_finish(self)

    common.Check.finish = finish
    print(f"replaying {path}: {rp.get('summary', '')[:300]}")
    getattr(props, "check_" + prop)(rp.get("tier", "quick"))
    if want in seen.get("fps", []):
        print(f"VIOLATION property={prop} replay={path}")
        print("  reproduced: the recorded violation occurs again on the current tree")
        return 1
    print("not reproduced: the recorded violation does not occur on the current tree")
    return 0
