"""Tiny Python mirror of Part/Feas from InfOCFSem.tla.

Used ONLY to steer input generation (stratification by partition shape) and to count which generated
cases are non-trivial for the evidence files. It is never used as an oracle: every expected value comes
from TLC evaluating the TLA+ specification.
"""
from __future__ import annotations


def part(base):
    """base: list of semantic conditionals (lists over worlds, 0/1/2). Returns (fin layers as lists of 0-based idx, inf list)."""
    if not base:
        return [], []
    nw = len(base[0])
    rest = list(range(len(base)))
    fin = []
    while rest:
        ok = [w for w in range(nw) if all(base[k][w] != 2 for k in rest)]
        tol = [k for k in rest if any(base[k][w] == 1 for w in ok)]
        if not tol:
            break
        fin.append(tol)
        rest = [k for k in rest if k not in tol]
    return fin, rest


def feasible(base, inf):
    nw = len(base[0])
    return [w for w in range(nw) if all(base[k][w] != 2 for k in inf)]


def shape(base) -> str:
    """strong | weak-nofin | weak-mixed | inconsistent | empty"""
    if not base:
        return "empty"
    fin, inf = part(base)
    if not inf:
        return "strong"
    if not feasible(base, inf):
        return "inconsistent"
    return "weak-nofin" if not fin else "weak-mixed"


def fal_sets(base, layer, worlds):
    return {frozenset(k for k in layer if base[k][w] == 2) for w in worlds}


def interesting(base, q) -> dict:
    """Flags describing why a (base, query) pair is a non-trivial case."""
    fin, inf = part(base)
    nw = len(q)
    feas = feasible(base, inf) if inf else list(range(nw))
    V = [w for w in feas if q[w] == 1]
    Nn = [w for w in feas if q[w] == 2]
    incomparable = False
    for layer in fin:
        fs = list(fal_sets(base, layer, feas))
        mins = [a for a in fs if not any(b < a for b in fs)]
        if len(mins) >= 2:
            incomparable = True
    return {
        "layers": len(fin),
        "inf": len(inf),
        "nonvacuous": bool(V) and bool(Nn),
        "incomparable": incomparable,
    }
