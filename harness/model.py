"""Projection / construction functions between spec values and implementation inputs.

Spec value                          implementation input
-----------                         --------------------
world i in 1..NW                    bitstring of i-1 over the signature, most significant atom first
conditional  c : 1..NW -> 0..2      a pair of formula trees (B, A) chosen from a presentation style
formula tree (nested tuple)         .cl text (through the real parser) or pysmt nodes
base         key -> conditional     BeliefBase(signature, {key: Conditional}, name)

Formula trees: ("var", name) | ("top",) | ("bot",) | ("not", f) | ("and", l, r) | ("or", l, r).
The evaluator here is deliberately tiny and independent of the repository.
"""
from __future__ import annotations

import itertools
import random
from typing import Iterable, Sequence

ATOMS = ["a", "b", "c", "d", "e", "f", "g", "h"]


# ----------------------------------------------------------------------------- worlds
def n_worlds(n_atoms: int) -> int:
    return 1 << n_atoms


def world_bits(w: int, n_atoms: int) -> tuple:
    """w is 1-based; returns tuple of 0/1 per atom, most significant first."""
    x = w - 1
    return tuple((x >> (n_atoms - 1 - i)) & 1 for i in range(n_atoms))


def world_assign(w: int, sig: Sequence[str]) -> dict:
    bits = world_bits(w, len(sig))
    return {a: bool(b) for a, b in zip(sig, bits)}


# ----------------------------------------------------------------------------- formulas
def V(n):
    return ("var", n)


TOP = ("top",)
BOT = ("bot",)


def Not(f):
    return ("not", f)


def And(l, r):
    return ("and", l, r)


def Or(l, r):
    return ("or", l, r)


def ev(f, asg: dict) -> bool:
    t = f[0]
    if t == "var":
        return asg[f[1]]
    if t == "top":
        return True
    if t == "bot":
        return False
    if t == "not":
        return not ev(f[1], asg)
    if t == "and":
        return ev(f[1], asg) and ev(f[2], asg)
    if t == "or":
        return ev(f[1], asg) or ev(f[2], asg)
    raise ValueError(f)


def atoms_of(f) -> set:
    t = f[0]
    if t == "var":
        return {f[1]}
    if t in ("top", "bot"):
        return set()
    return set().union(*[atoms_of(x) for x in f[1:]])


def models(f, sig: Sequence[str]) -> list:
    """1-based world numbers satisfying f."""
    return [w for w in range(1, n_worlds(len(sig)) + 1) if ev(f, world_assign(w, sig))]


def cond_vec(B, A, sig: Sequence[str]) -> list:
    """semantic conditional of (B|A): list of 0/1/2 indexed by world-1."""
    out = []
    for w in range(1, n_worlds(len(sig)) + 1):
        asg = world_assign(w, sig)
        if not ev(A, asg):
            out.append(0)
        elif ev(B, asg):
            out.append(1)
        else:
            out.append(2)
    return out


def depth(f) -> int:
    if f[0] in ("var", "top", "bot"):
        return 0
    return 1 + max(depth(x) for x in f[1:])


# ----------------------------------------------------------------------------- rendering to .cl text
def _prec(f):
    return {"or": 1, "and": 2, "not": 3}.get(f[0], 4)


def render(f, full_parens: bool = False, sp: str = "") -> str:
    """Text in the .cl formula language. Minimal parentheses by default."""
    t = f[0]
    if t == "var":
        return f[1]
    if t == "top":
        return "Top"
    if t == "bot":
        return "Bottom"
    if t == "not":
        inner = render(f[1], full_parens, sp)
        if full_parens or _prec(f[1]) < 3:
            return "!" + "(" + inner + ")"
        return "!" + inner
    op = "," if t == "and" else ";"
    l, r = f[1], f[2]
    ls, rs = render(l, full_parens, sp), render(r, full_parens, sp)
    # grammar is left-recursive with ANTLR precedence climbing: and/or are left associative
    if full_parens or _prec(l) < _prec(f):
        ls = "(" + ls + ")"
    if full_parens or _prec(r) <= _prec(f):
        rs = "(" + rs + ")"
    return ls + sp + op + sp + rs


def render_cond(B, A, **kw) -> str:
    return "(" + render(B, **kw) + "|" + render(A, **kw) + ")"


def render_base(sig: Sequence[str], conds: Sequence[tuple], name: str = "kb", **kw) -> str:
    lines = ["signature", "   " + ",".join(sig), "", "conditionals", name + "{"]
    body = [("   " + render_cond(B, A, **kw)) for (B, A) in conds]
    lines.append(",\n".join(body))
    lines.append("}")
    return "\n".join(lines) + "\n"


def render_queries(conds: Sequence[tuple], **kw) -> str:
    return ",\n".join(render_cond(B, A, **kw) for (B, A) in conds)


# ----------------------------------------------------------------------------- pysmt construction
def to_pysmt(f):
    from pysmt.shortcuts import And as PAnd, Bool, Not as PNot, Or as POr, Symbol
    from pysmt.typing import BOOL

    t = f[0]
    if t == "var":
        return Symbol(f[1], BOOL)
    if t == "top":
        return Bool(True)
    if t == "bot":
        return Bool(False)
    if t == "not":
        return PNot(to_pysmt(f[1]))
    if t == "and":
        return PAnd(to_pysmt(f[1]), to_pysmt(f[2]))
    if t == "or":
        return POr(to_pysmt(f[1]), to_pysmt(f[2]))
    raise ValueError(f)


def from_pysmt(node):
    """pysmt FNode -> formula tree (n-ary and/or folded left)."""
    if node.is_symbol():
        return V(node.symbol_name())
    if node.is_bool_constant():
        return TOP if node.constant_value() else BOT
    if node.is_not():
        return Not(from_pysmt(node.arg(0)))
    if node.is_and() or node.is_or():
        args = [from_pysmt(a) for a in node.args()]
        if not args:
            return TOP if node.is_and() else BOT
        acc = args[0]
        for a in args[1:]:
            acc = And(acc, a) if node.is_and() else Or(acc, a)
        return acc
    if node.is_implies():
        return Or(Not(from_pysmt(node.arg(0))), from_pysmt(node.arg(1)))
    if node.is_iff():
        l, r = from_pysmt(node.arg(0)), from_pysmt(node.arg(1))
        return Or(And(l, r), And(Not(l), Not(r)))
    raise ValueError(f"unsupported pysmt node {node}")


def make_conditional(B, A, text: str | None = None):
    from inference.conditional import Conditional

    if text is None:
        text = render_cond(B, A)
    return Conditional(to_pysmt(B), to_pysmt(A), text)


def make_base(sig: Sequence[str], keyed: dict, name: str = "kb"):
    """keyed: {key: (B, A)} -> BeliefBase built programmatically."""
    from inference.belief_base import BeliefBase

    return BeliefBase(list(sig), {k: make_conditional(B, A) for k, (B, A) in keyed.items()}, name)


def make_queries(keyed: dict):
    from inference.queries import Queries

    return Queries({k: make_conditional(B, A) for k, (B, A) in keyed.items()})


# ----------------------------------------------------------------------------- world sets -> formulas (presentations)
def _lit(a, pos):
    return V(a) if pos else Not(V(a))


def _conj(lits):
    acc = lits[0]
    for l in lits[1:]:
        acc = And(acc, l)
    return acc


def _disj(parts):
    acc = parts[0]
    for p in parts[1:]:
        acc = Or(acc, p)
    return acc


def _cubes(worlds: set, sig: Sequence[str]) -> list:
    """Greedy cover of a world set by cubes (partial assignments). Returns list of dict atom->bool."""
    n = len(sig)
    remaining = set(worlds)
    cubes = []
    # candidate cubes ordered by size (fewest literals first)
    for k in range(0, n + 1):
        if not remaining:
            break
        for idxs in itertools.combinations(range(n), k):
            for vals in itertools.product([0, 1], repeat=k):
                cube_worlds = {
                    w
                    for w in range(1, (1 << n) + 1)
                    if all(world_bits(w, n)[i] == v for i, v in zip(idxs, vals))
                }
                if cube_worlds <= worlds and cube_worlds & remaining:
                    cubes.append({sig[i]: bool(v) for i, v in zip(idxs, vals)})
                    remaining -= cube_worlds
                    if not remaining:
                        break
            if not remaining:
                break
    return cubes


def formula_for(worlds: Iterable[int], sig: Sequence[str], style: str = "dnf", rng: random.Random | None = None):
    """A formula whose models (over sig) are exactly `worlds`.

    styles: dnf (greedy cube cover), cnf (De Morgan of the dnf of the complement), minterm (full DNF),
            const (Top/Bottom when trivial, else dnf), noisy (dnf wrapped in equivalence-preserving noise)
    """
    worlds = set(worlds)
    n = len(sig)
    allw = set(range(1, (1 << n) + 1))
    if style == "minterm":
        if not worlds:
            return And(V(sig[0]), Not(V(sig[0]))) if sig else BOT
        return _disj([_conj([_lit(a, b) for a, b in world_assign(w, sig).items()]) for w in sorted(worlds)])
    if not worlds:
        if style in ("const", "dnf", "cnf") or not sig:
            return BOT
        a = (rng or random).choice(list(sig))
        return And(V(a), Not(V(a)))
    if worlds == allw:
        if style in ("const", "dnf", "cnf") or not sig:
            return TOP
        a = (rng or random).choice(list(sig))
        return Or(V(a), Not(V(a)))
    if style == "cnf":
        comp = allw - worlds
        cubes = _cubes(comp, sig)
        clauses = [_disj([_lit(a, not b) for a, b in cube.items()]) for cube in cubes]
        return _conj(clauses)
    cubes = _cubes(worlds, sig)
    f = _disj([_conj([_lit(a, b) for a, b in cube.items()]) if cube else TOP for cube in cubes])
    if style == "noisy":
        r = rng or random
        k = r.randrange(5)
        if k == 0:
            f = Not(Not(f))
        elif k == 1:
            f = And(f, TOP)
        elif k == 2:
            f = Or(BOT, f)
        elif k == 3:
            a = r.choice(list(sig))
            f = And(f, Or(V(a), Not(V(a))))
        else:
            a = r.choice(list(sig))
            f = Or(f, And(V(a), Not(V(a))))
    return f


STYLES = ["dnf", "cnf", "minterm", "const", "noisy"]


def present(vec: Sequence[int], sig: Sequence[str], rng: random.Random, style: str | None = None):
    """A pair of formula trees (B, A) whose semantic conditional over sig is exactly vec.

    A's models are the applicable worlds; B may be chosen freely outside A: the don't-care worlds are
    resolved by a seeded choice (none / all / random), which exercises C12 implicitly.
    """
    n = len(sig)
    app = {i + 1 for i, v in enumerate(vec) if v != 0}
    ver = {i + 1 for i, v in enumerate(vec) if v == 1}
    allw = set(range(1, (1 << n) + 1))
    dc = allw - app
    mode = rng.randrange(3)
    if mode == 0:
        bw = set(ver)
    elif mode == 1:
        bw = ver | dc
    else:
        bw = ver | {w for w in dc if rng.random() < 0.5}
    sa = style or rng.choice(STYLES)
    sb = style or rng.choice(STYLES)
    A = formula_for(app, sig, sa, rng)
    B = formula_for(bw, sig, sb, rng)
    assert cond_vec(B, A, sig) == list(vec), (vec, B, A)
    return B, A


# ----------------------------------------------------------------------------- random generation
def random_formula(sig: Sequence[str], d: int, rng: random.Random, consts: float = 0.08):
    if d == 0 or rng.random() < 0.25:
        r = rng.random()
        if r < consts / 2:
            return TOP
        if r < consts:
            return BOT
        a = V(rng.choice(list(sig)))
        return a if rng.random() < 0.6 else Not(a)
    k = rng.randrange(3)
    if k == 0:
        return Not(random_formula(sig, d - 1, rng, consts))
    l = random_formula(sig, d - 1, rng, consts)
    r = random_formula(sig, d - 1, rng, consts)
    return And(l, r) if k == 1 else Or(l, r)


def cond_index(vec: Sequence[int]) -> int:
    """base-3 number of a semantic conditional (most significant = world 1)."""
    x = 0
    for v in vec:
        x = x * 3 + v
    return x


def cond_from_index(i: int, nw: int) -> list:
    out = []
    for _ in range(nw):
        out.append(i % 3)
        i //= 3
    return list(reversed(out))
