"""pytest plugin (-p infocf_tracer_plugin): runs the repository's own tests with the external recorder switched on.
Active only when INFOCF_VERIF=1 and INFOCF_TRACE_FILE are set; nothing in /repo is modified."""
import os


def pytest_configure(config):
    path = os.environ.get("INFOCF_TRACE_FILE")
    if os.environ.get("INFOCF_VERIF") == "1" and path:
        import tracer

        tracer.install(path)


def pytest_unconfigure(config):
    if os.environ.get("INFOCF_VERIF") == "1" and os.environ.get("INFOCF_TRACE_FILE"):
        import tracer

        tracer.uninstall()
