"""Entry point: bin/check <Cxx> --tier quick|thorough [--replay FILE]"""
from __future__ import annotations

import argparse
import os
import random
import sys

sys.path.insert(0, os.path.dirname(os.path.abspath(__file__)))

import tlc  # noqa: E402
from common import Check, machinery_failure  # noqa: E402


def main():
    ap = argparse.ArgumentParser()
    ap.add_argument("prop")
    ap.add_argument("--tier", default=os.environ.get("VERIF_TIER", "quick"), choices=["quick", "thorough"])
    ap.add_argument("--replay")
    a = ap.parse_args()
    import props

    fn = getattr(props, "check_" + a.prop, None)
    if fn is None:
        machinery_failure(f"no check for {a.prop}")
    if a.replay:
        import replay

        sys.exit(replay.run(a.prop, a.replay))
    from drivers import infer

    try:
        rc = fn(a.tier)
    except tlc.MachineryError as e:
        machinery_failure(str(e))
    except infer.InterpreterCrash as e:
        machinery_failure("a worker process died abruptly (native crash) also when its task was re-run in isolation:\n" + "\n".join(f"  {f}: {t}" for f, t in e.args[0][:5]))
    sys.exit(rc)


if __name__ == "__main__":
    main()
