"""One function per property: what is verified on the spec, what is replayed / validated against the code."""
from __future__ import annotations

import random

from common import Check
from drivers import infer

STRICT_THMS = {
    "C01": ["ThmStrict", "ModelsExist", "Direct"],
    "C02": ["ZModel", "ZAccept", "Incl"],
    "C03": ["WOrder", "Incl", "Direct"],
    "C04": ["WOrder", "Incl", "Direct"],
    "C05": ["InclC", "CBound", "Direct"],
}


def _answers(prop, tier, system, thms, modes=(False,), level="model_checking"):
    chk = Check(prop, tier, level)
    rng = random.Random(chk.seed)
    infer.verify_theorems(chk, thms, tier, rng)
    configs = infer.configs_for([system], list(modes))
    # path G: every base of the 2-atom universe that is consistent for the mode
    rows = infer.gen_vectors(chk, maxb=2, with_c=(system == "c"))
    only = lambda row, weakly: (row["weak"] if weakly else row["strong"])
    infer.run_exhaustive(chk, rows, configs, rng, qfrac=(1.0 if tier == "thorough" else 1 / 3), only=only)
    # path T: sampled larger universes
    n = 240 if tier == "quick" else 4000
    shapes = {"strong"} if modes == (False,) else {"strong", "weak-nofin", "weak-mixed"}
    cases = []
    for i in range(n):
        atoms = rng.choice([2, 3, 3, 3, 4]) if system != "c" else rng.choice([2, 3, 3])
        nconds = rng.choice([1, 2, 3, 3, 4, 4, 5]) if system != "c" else rng.choice([1, 2, 3, 3, 4])
        cases.append(infer.gen_case(rng, atoms, nconds, 12, shapes))
    infer.run_sampled(chk, cases, configs)
    if system in ("z", "w", "l", "p"):
        # implementation-shaped algorithms refine the definitions; inputs that tell the named wrong variants apart are always replayed
        infer.verify_algo(chk, tier)
        dcases = infer.distinguishing_cases(rng) + infer.distinguishing_cases(rng, "wAnyTie") + infer.distinguishing_cases(rng, "lexAllMcsF") + infer.distinguishing_cases(rng, "wMinCard")
        dcases += [c for c in (infer.gen_case_defaults(rng) for _ in range(60 if tier == "quick" else 1500)) if c]
        dcases += [c for c in (infer.gen_case_chain(rng) for _ in range((220 if system in ("z", "p") else 80) if tier == "quick" else 2000)) if c]  # 3+ layers
        dcases += [c for c in (infer.gen_case_dups(rng) for _ in range(40 if tier == "quick" else 800)) if c]  # a conditional stated twice
        if tier == "thorough":
            found = [p for p in infer.search_distinguishing(chk, rng, 20000) if p.get("variant") == "lexAllPairs"]
            chk.cov["distinguishing_inputs_found_live"] = len(found)
        infer.run_sampled(chk, dcases, configs, tag="distinguishing")
        chk.cov["distinguishing_inputs_replayed"] = len(dcases)
    if system == "c":
        # the constraint system over MINIMAL correction sets, as coded, refines skeptical inference over all c-representations
        infer.verify_algo(chk, tier, with_c=True)
        dups = [c for c in (infer.gen_case_dups(rng) for _ in range(40 if tier == "quick" else 600)) if c and len(c["base"]) <= 4]
        infer.run_sampled(chk, dups, configs, tag="dups")  # a conditional stated twice has two impacts
        chk.cov["duplicate_conditional_cases"] = len(dups)
    chk.cov["exhaustive"] = True
    chk.cov["rule"] = (
        "path G: TLC enumerates every multiset of <=2 semantic conditionals over 2 atoms (3402 bases); those consistent for the mode are "
        "replayed with " + ("all 81" if tier == "thorough" else "a seeded third of the 81") + " queries, each conditional rendered in a seeded "
        "presentation (DNF/CNF/minterm/constants/noise; parser or API). path T: seeded random bases over 2-4 atoms, 1-5 conditionals, "
        "12 queries each, answers validated by TLC (Trace_Ops). Non-trivial = (base, query) pairs where both A&B and A&!B have a feasible world "
        "(the answer is not decided by the vacuity rules); distinct by semantic base and query."
    )
    chk.assumptions += [
        "oracle = InfOCFSem.tla, validated by MC_SemTheorems on the 2-atom universe",
        "exhaustive only inside the 2-atom universe with <=2 conditionals; sampled beyond (<=4 atoms, <=5 conditionals)",
    ]
    if system == "c":
        chk.assumptions.append("c-inference oracle enumerates impact vectors up to 2^(n-1)+1 per conditional (Komo & Beierle 2020 bound)")
    return chk.finish()


def check_C01(tier):
    return _answers("C01", tier, "p", STRICT_THMS["C01"])


def check_C02(tier):
    return _answers("C02", tier, "z", STRICT_THMS["C02"])


def check_C03(tier):
    return _answers("C03", tier, "w", STRICT_THMS["C03"])


def check_C04(tier):
    return _answers("C04", tier, "l", STRICT_THMS["C04"])


def check_C05(tier):
    return _answers("C05", tier, "c", STRICT_THMS["C05"])


def check_C07(tier):
    chk = Check("C07", tier)
    rng = random.Random(chk.seed)
    infer.verify_theorems(chk, ["ThmWeak", "Coincide", "Incl", "ZModel"], tier, rng)
    configs = infer.configs_for(["p", "z", "w", "l"], [True])
    rows = infer.gen_vectors(chk, maxb=2, with_c=False)
    weak_rows = [r for r in rows if r["weak"]]
    if tier == "quick":  # every weakly consistent base with no finite layer or a mixed partition, a seeded half of the strong ones
        weak_rows = [r for r in weak_rows if (not r["strong"]) or rng.random() < 0.5]
    infer.run_exhaustive(chk, weak_rows, configs, rng, qfrac=(1.0 if tier == "thorough" else 1 / 6), only=lambda row, weakly: row["weak"])
    n = 80 if tier == "quick" else 1300
    cases = []
    for shape in ("weak-nofin", "weak-mixed", "strong"):
        for i in range(n):
            cases.append(infer.gen_case(rng, rng.choice([2, 3, 3, 4]), rng.choice([1, 2, 3, 3, 4, 5]), 12, {shape}))
    infer.run_sampled(chk, cases, configs)
    shapes = {}
    import pysem
    for c in cases:
        if c:
            s = pysem.shape(infer.vecs(c["base"]))
            shapes[s] = shapes.get(s, 0) + 1
    chk.cov["sampled_shapes"] = shapes
    chk.cov["exhaustive"] = tier == "thorough"
    chk.cov["rule"] = (
        "extended mode, operators p/Z/W/lex x every back-end. path G: every weakly consistent base of <=2 conditionals over 2 atoms "
        "(quick: all non-strong ones and a seeded half of the strong ones, a sixth of the 81 queries; thorough: all, all queries). path T: "
        "seeded bases over 2-4 atoms stratified in equal parts into no-finite-layer / mixed / strongly consistent, validated by TLC. "
        "Non-trivial = both A&B and A&!B have a feasible world."
    )
    chk.assumptions += ["oracle = InfOCFSem.tla extended-mode definitions, validated by ThmWeak/Coincide on the 2-atom universe"]
    return chk.finish()


def check_C06(tier):
    from drivers import consist

    return consist.run(Check("C06", tier), tier)


def check_C08(tier):
    from drivers import relations as rel

    chk = Check("C08", tier)
    rng = random.Random(chk.seed)
    infer.verify_theorems(chk, ["Incl", "InclC"], tier, rng)
    cases = rel.corpus_cases(rng, tier)
    cases += rel.generated_cases(rng, 40 if tier == "quick" else 400)
    cases += rel.small_cases(rng, 60 if tier == "quick" else 600, shapes=("strong", "weak-mixed", "weak-nofin"))
    rel.run_inclusions(chk, cases, modes=[False, True], budget=60)
    chk.cov["rule"] = (
        "Every operator/back-end/mode asked the same queries on: shipped corpora (birds, random_large 6-20 atoms quick / up to 60 thorough, "
        "484 representatives), generated layered bases with 8-40 atoms, and sampled 3-5 atom bases; TLC (Trace_Relations) checks p=>Z=>W=>lex and, "
        "strict mode, p=>c=>W row by row. Rows flagged as timed out carry no information ('X'). Non-trivial = (case, mode, query) where the operators do not all agree."
    )
    chk.assumptions += ["inclusions are theorems of the semantics (checked on the spec by MC_SemTheorems Incl/InclC)", "no world enumeration: bases of any size"]
    return chk.finish()


def check_C09(tier):
    from drivers import relations as rel

    chk = Check("C09", tier)
    rng = random.Random(chk.seed)
    infer.verify_theorems(chk, ["Direct", "SysP", "RM", "ConsPres"], tier, rng, sample2=(12 if tier == "quick" else 250))
    cases = rel.corpus_cases(rng, tier, per_size=1, nq=1)
    cases += rel.generated_cases(rng, 16 if tier == "quick" else 200, atom_range=(6, 24))
    cases += rel.small_cases(rng, 50 if tier == "quick" else 600, shapes=("strong", "weak-mixed", "weak-nofin"))
    fired = rel.run_postulates(chk, cases, modes=[False, True], n_inst=(6 if tier == "quick" else 12))
    need = {"DI", "REF", "SCL", "LLE", "RW", "AND", "OR", "CM", "CUT", "CONS", "RM"}
    missing = need - set(k for k, v in fired.items() if v > 0)
    if missing:
        from common import machinery_failure

        machinery_failure(f"C09: postulates never instantiated with true premises: {sorted(missing)} (vacuous)")
    chk.cov["rule"] = (
        "Per base and configuration (operator x back-end x mode; c-inference strict only) one manager: phase 1 asks a pool of antecedent x consequent "
        "conditionals, phase 2 instantiates DI, REF, SCL, LLE, RW, AND, OR, CM, CUT, CONS (strict) and RM (Z, lex) with premises that were answered True "
        "and asks the conclusions; TLC (Trace_Relations 'post' events) checks premises => conclusion. Non-trivial = instance whose premises all hold."
    )
    chk.assumptions += ["postulates are theorems of the semantics (MC_SemTheorems SysP/RM/ConsPres/Direct on the 2-atom universe)"]
    return chk.finish()


def check_C11(tier):
    import engines
    from drivers import relations as rel

    chk = Check("C11", tier)
    rng = random.Random(chk.seed)
    infer.verify_theorems(chk, ["Coincide"], tier, rng, sample2=50)
    ok, bad = engines.usable_engines()
    chk.cov["usable_engines"] = ok
    chk.cov["unusable_engines"] = bad
    if tier == "quick":
        chosen = sorted(rng.sample(ok, min(4, len(ok))))
    else:
        chosen = ok
    rc2s = ["rc2"] + [f"rc2-{e}" for e in chosen]
    backends = {"w": ["z3"] + rc2s, "l": ["z3"] + rc2s, "c": rc2s}
    cases = rel.corpus_cases(rng, tier, per_size=1, nq=6)
    cases += rel.generated_cases(rng, 12 if tier == "quick" else 150, atom_range=(6, 30), nq=6)
    cases += rel.small_cases(rng, 60 if tier == "quick" else 800, shapes=("strong", "weak-mixed", "weak-nofin"), nq=8)
    rel.run_inclusions(chk, cases, modes=[False, True], budget=60, systems=("w", "l", "c"), backends=backends, ev_kind="equal")
    # every usable engine (also in the quick tier) on the inputs where the layer recursions do the most work: bases with several
    # tied correction sets per layer (defaults-and-exceptions, TLC-found distinguishing inputs) and specificity chains
    all_rc2 = ["rc2"] + [f"rc2-{e}" for e in ok]
    ties = [c for c in (infer.gen_case_defaults(rng, 6) for _ in range(16 if tier == "quick" else 200)) if c]
    for v in ("wAnyTie", "lexAllPairs", "lexAllMcsF", "wMinCard"):
        ties += infer.distinguishing_cases(rng, v)[: (8 if tier == "quick" else 60)]
    ties += [c for c in (infer.gen_case_chain(rng) for _ in range(8 if tier == "quick" else 100)) if c]
    ties += [c for c in (infer.gen_case_dups(rng, 6) for _ in range(16 if tier == "quick" else 200)) if c]
    tie_cases = [{"kind": "trees", "sig": c["sig"], "base": [(x["B"], x["A"]) for x in c["base"]], "qs": [(x["B"], x["A"]) for x in c["qs"][:6]], "via": "api"} for c in ties]
    for _ in range(8 if tier == "quick" else 100):  # inheritance with exceptions over 5-6 atoms
        c = infer.gen_case_inherit(rng, 6)
        tie_cases.append({"kind": "trees", "sig": c["sig"], "base": c["base"], "qs": c["qs"], "via": "api"})
    rel.run_inclusions(chk, tie_cases, modes=[False], budget=60, systems=("w", "l", "c"), backends={"w": ["z3"] + all_rc2, "l": ["z3"] + all_rc2, "c": all_rc2}, ev_kind="equal")
    chk.cov["tie_cases_under_every_engine"] = len(tie_cases)
    chk.cov["backends_compared"] = backends
    chk.cov["rule"] = (
        "System W and lex under z3, rc2 and rc2-<engine> (quick: 4 seeded engines of the usable ones, thorough: all), c-inference under every rc2 value, both modes, on corpora, "
        "generated 6-30 atom bases and sampled 3-5 atom bases; in addition EVERY usable engine on bases with tied correction sets per layer (defaults-and-exceptions, TLC-found distinguishing inputs, specificity chains); TLC (Trace_Relations 'equal' events) requires pointwise equal answers. Non-trivial = distinct (case, mode, system, query) rows "
        "for which at least two back-ends returned an unflagged answer (i.e. a comparison actually took place)."
    )
    return chk.finish()


def check_C12(tier):
    from drivers import present

    return present.run(Check("C12", tier), tier)


def check_C10(tier):
    from drivers import syntax

    return syntax.run(Check("C10", tier), tier)


def check_C15(tier):
    from drivers import cnf

    return cnf.run(Check("C15", tier), tier)


def check_C13(tier):
    from drivers import manager

    return manager.run(Check("C13", tier), tier)


def check_C14(tier):
    from drivers import budget

    return budget.run(Check("C14", tier, level="fault_enumeration"), tier)


def check_C16(tier):
    from drivers import ocf

    chk = Check("C16", tier)
    rng = random.Random(chk.seed)
    infer.verify_theorems(chk, ["ZModel", "ZAccept"], tier, rng)
    _mc_ocf(chk, tier)
    scen = ocf.gen_scenarios(rng, ["z"], 400 if tier == "quick" else 30000, persistence=False)
    keep = ocf.run_lifecycles(chk, scen, "z")
    chk.cov["construct_refused"] = sum(1 for r in keep if r["events"] and r["events"][0].get("outcome") == "refused")
    chk.cov["with_facts"] = sum(1 for r in keep if r["sc"]["facts"])
    chk.cov["rule"] = (
        "MC_Ocf: all interleavings of lazy/forced/bulk ranking, save, failed save, load (<= 2 objects, 6 steps) keep the cache exact. Real code: System Z ranking objects for seeded bases over "
        "2-3 atoms (consistent for the mode; any shape when facts are given), fact lists of 0-2 formulas, extended in {None, False, True}; random orders of rank_world (lazy/forced), "
        "compute_all_ranks, formula_rank, conditional_acceptance, plus the System Z operator's answer to the same query; every life cycle is a trace validated by TLC against Ocf.tla with "
        "full = KZStar(Augment(base, facts)) from the semantic core (refusal iff the combination is inconsistent for the mode). Non-trivial = life cycle with at least one lazy operation."
    )
    if keep:
        chk.sample({"scenario": {"base": [M_render(c) for c in keep[0]["sc"]["base"]], "facts": [M_r(f) for f in keep[0]["sc"]["facts"]], "extended": keep[0]["sc"]["extended"]}, "events": keep[0]["events"][:6]})
    return chk.finish()


def M_render(c):
    import model as M

    return M.render_cond(*c)


def M_r(f):
    import model as M

    return M.render(f)


def _mc_ocf(chk, tier):
    import tlc
    from common import machinery_failure

    cfg = tlc.cfg_text(invariants=["CacheExact", "DiskExact", "CopiesAgree"], properties=["Monotone"], constants={"MaxObjs": 2, "MaxSteps": 6 if tier == "quick" else 7})
    res = tlc.run("MC_Ocf", cfg, f"{chk.prop}_mc_ocf", timeout=3000)
    if res.violated:
        machinery_failure(f"MC_Ocf: {res.violated} violated by the specification itself")
    tlc.require_ok(res, "MC_Ocf")
    chk.add_tlc("MC_Ocf", res, "interleavings of lazy ranking, save, failed save, load")
    # unbounded companion: CacheExact and DiskExact are inductive for any set of worlds, ranks, objects and files (TLAPS)
    import tlaps

    pr = tlaps.prove("OcfProof")
    chk.cov["tlaps_OcfProof"] = {k: pr[k] for k in ("available", "proved", "refuted", "obligations", "wall_s")}
    if pr["refuted"]:
        chk.assumptions.append("tlapm did not re-prove every obligation of a proof module in this run (recorded under coverage.tlaps_*); the TLC results do not depend on it")


def check_C18(tier):
    from drivers import ocf

    chk = Check("C18", tier)
    rng = random.Random(chk.seed)
    _mc_ocf(chk, tier)
    ocf.run_laws(chk, tier, rng)
    scen = ocf.gen_scenarios(rng, ["custom", "z", "c"], 90 if tier == "quick" else 6000, persistence=False)
    ocf.run_lifecycles(chk, scen, "kinds")
    chk.cov["exhaustive"] = True
    chk.cov["rule"] = (
        "Every total ranking [W -> 0..3] over 1 and 2 atoms (4 + 256, exhaustive), seeded rankings over 3-4 (thorough: up to 6) atoms, half of them asymmetric by construction; per ranking: "
        "formula_rank (3 formulas), conditional_acceptance (3 conditionals), marginalize (2 proper atom subsets), compute_conditionalization (2 formulas), ranks2tpo and tpo2ranks with a rank-valued and two "
        "strictly increasing layer numberings; each call is an event whose result TLC compares with the law evaluated on the ranking (FRank, Accepts, Marg, CondOn, Tpo, SameOrder). System Z and "
        "c-representation objects go through the same operations in life-cycle traces (Trace_Ocf). Non-trivial = ranking with at least two different ranks."
    )
    return chk.finish()


def check_C20(tier):
    from drivers import ocf

    chk = Check("C20", tier)
    rng = random.Random(chk.seed)
    _mc_ocf(chk, tier)
    scen = ocf.gen_scenarios(rng, ["z", "c", "custom"], 150 if tier == "quick" else 9000, persistence=True)
    keep = ocf.run_lifecycles(chk, scen, "persist")
    cnt = {"save_ok": 0, "save_failed": 0, "load": 0, "fresh_process_load": 0, "roundtrips": 0}
    for r in keep:
        for e in r["events"]:
            if e["ev"] == "save":
                cnt["save_ok" if e["ok"] else "save_failed"] += 1
            elif e["ev"] == "load":
                cnt["fresh_process_load" if e.get("fresh_process") else "load"] += 1
            elif e["ev"] == "same":
                cnt["roundtrips"] += 1
    chk.cov.update(cnt)
    if cnt["save_failed"] == 0 or cnt["fresh_process_load"] == 0:
        from common import machinery_failure

        machinery_failure("C20: no failed save or no fresh-process load was exercised (vacuous)")
    chk.cov["rule"] = (
        "MC_Ocf: save from every partial-computation state, failed save, load, continued lazy ranking on original and copy. Real code: objects of every kind (System Z, c-representation, custom) go through "
        "seeded life cycles with save_ocf from partially computed states, real failures (missing directory, unwritable path, an unpicklable metadata member), load_ocf in the same process and in a fresh "
        "interpreter, continued rank_world on original and copy, export/import of impacts (json, pickle, list) and metadata round trips (json, pickle, by suffix); each life cycle is a trace validated by TLC "
        "against Ocf.tla: Save writes the current state and leaves the object (ranks, solver handles) unchanged, SaveFail changes nothing, Load yields the snapshot. Non-trivial = life cycle with a save or load."
    )
    if keep:
        r = next((x for x in keep if any(e["ev"] == "save" and not e["ok"] for e in x["events"])), keep[0])
        chk.sample({"kind": r["sc"]["kind"], "events": [{k: v for k, v in e.items() if k != "ranks"} for e in r["events"]][:12]})
    return chk.finish()


def check_C17(tier):
    import model as M
    from drivers import ocf

    chk = Check("C17", tier)
    rng = random.Random(chk.seed)
    infer.verify_theorems(chk, ["InclC", "CBound"], tier, rng)
    scen = []
    n = 140 if tier == "quick" else 4000
    tries = 0
    while len(scen) < n and tries < 20 * n:
        tries += 1
        atoms = rng.choice([2, 2, 3])
        sig = infer.SIG[:atoms]
        nconds = rng.choice([1, 1, 2, 3, 3]) if len(scen) % 5 else 1
        c = infer.gen_case(rng, atoms, nconds, 4, {"strong"})
        if not c:
            continue
        sc = {"kind": "c", "sig": sig, "base": [(x["B"], x["A"]) for x in c["base"]], "facts": [], "extended": None, "seed": rng.randrange(1 << 30)}
        ops = [["all", 1]]
        for (B, A) in sc["base"]:
            ops.append(["accept", 1, (B, A)])       # the object accepts every conditional of its base
        for q in c["qs"][:4]:
            ops.append(["cop", 1, (q["B"], q["A"])])
            ops.append(["accept", 1, (q["B"], q["A"])])
        if len(scen) % 2 == 0 and len(sc["base"]) <= 3:  # (a duplicated conditional can make it 4: TLC's Pareto filter over the box is quadratic)
            ops.append(["front", 1, 60])
        sc["ops"] = ops
        if len(scen) % 5 in (1, 3) and len(sc["base"]) >= 2:  # keys other than 1..n in insertion order (the base is the same base)
            n_ = len(sc["base"])
            sc["keys"] = rng.choice([list(range(n_, 0, -1)), list(range(2, n_ + 1)) + [1], sorted(rng.sample(range(1, n_ + 4), n_)), rng.sample(range(1, n_ + 4), n_),
                                     list(range(2, n_ + 2)), list(range(0, n_)),
                                     list(range(9, 9 + n_)), list(range(8 + n_, 8, -1))])  # two-digit keys: numeric and string order differ
        scen.append(sc)
    # bases whose Pareto front has several elements (a falsification can be charged to alternative conditionals)
    V = M.V
    multi = [
        (["a", "b"], [(V("b"), V("a")), (M.Or(V("b"), M.Not(V("a"))), M.TOP)]),
        (["a", "b", "f"], [(V("f"), V("b")), (V("a"), V("b")), (V("a"), M.And(V("f"), V("b")))]),
        (["p", "b", "f"], [(V("f"), V("b")), (M.Not(V("f")), V("p")), (M.Not(V("f")), M.And(V("b"), V("p"))), (V("b"), V("p"))]),
        (["a", "b", "c"], [(V("c"), V("a")), (V("c"), V("b")), (M.Or(V("c"), M.Not(M.Or(V("a"), V("b")))), M.TOP)]),
    ]
    for sig_, base_ in multi:
        scen.append({"kind": "c", "sig": sig_, "base": base_, "facts": [], "extended": None, "seed": rng.randrange(1 << 30), "ops": [["all", 1], ["front", 1, 60]]})
    keep = ocf.run_lifecycles(chk, scen, "crep")
    chk.cov["fronts_with_several_vectors"] = sum(1 for r in keep for e in r["events"] if e["ev"] == "front" and len(e["vectors"]) >= 2)
    chk.cov["fronts_enumerated"] = sum(1 for r in keep for e in r["events"] if e["ev"] == "front")
    chk.cov["single_conditional_bases"] = sum(1 for r in keep if len(r["sc"]["base"]) == 1)
    chk.cov["bases_with_unfalsifiable_conditional"] = sum(1 for r in keep if any(2 not in v for v in r["env"]["base"]))
    chk.cov["rule"] = (
        "Strongly consistent bases over 2-3 atoms with 1-3 conditionals (every fifth a single conditional; unfalsifiable conditionals occur by sampling): init_random_min_c_rep must succeed; TLC checks that the "
        "impacts are non-negative, form a c-representation and that no c-representation lies strictly below them (finite search), that compute_all_ranks equals the impact sums, that every base conditional and "
        "every query c-inference answers True (satisfiable antecedent) is accepted; for every fourth base c_inference_pareto_front runs in a subprocess with a 60 s limit and TLC checks the returned vectors are "
        "pairwise different Pareto-minimal c-representations and contain every Pareto-minimal one with impacts <= max(2^(n-1), largest returned)+1. Non-trivial = life cycle with lazy operations."
    )
    chk.assumptions += ["completeness of the Pareto front is checked up to the stated impact bound only"]
    if keep:
        chk.sample({"base": [M.render_cond(*c) for c in keep[0]["sc"]["base"]], "events": [{k: v for k, v in e.items() if k != "ranks"} for e in keep[0]["events"]][:8]})
    return chk.finish()


def check_C19(tier):
    from drivers import revision

    return revision.run(Check("C19", tier), tier)


def check_X01(tier):
    """Extra (not one of the listed properties): conditional syntax splitting -- see drivers/synsplit.py, DESIGN 11.9."""
    from drivers import synsplit

    return synsplit.run(Check("X01", tier), tier)
