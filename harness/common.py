"""Shared plumbing of the checks: tiers, seeds, evidence, violations, known findings."""
from __future__ import annotations

import hashlib
import json
import os
import sys
import time

VERIF = os.path.dirname(os.path.dirname(os.path.abspath(__file__)))
REPO = os.environ.get("INFOCF_REPO", "/repo")
# the registered commands always use /verif/evidence, /verif/replays, /verif/build; bin/selftest redirects them to scratch
EVIDENCE = os.environ.get("VERIF_EVIDENCE_DIR", os.path.join(VERIF, "evidence"))
REPLAYS = os.environ.get("VERIF_REPLAYS_DIR", os.path.join(VERIF, "replays"))
BUILD = os.environ.get("VERIF_BUILD_DIR", os.path.join(VERIF, "build"))
KNOWN = os.path.join(VERIF, "known_findings.json")


def seed() -> int:
    try:
        return int(os.environ.get("VERIF_SEED", "20261004"))
    except ValueError:
        return 20261004


def ncpu() -> int:
    try:
        return max(1, min(16, len(os.sched_getaffinity(0))))
    except Exception:
        return 8


class Check:
    """One run of one property's check. Collects coverage and violations; writes evidence; sets the exit code."""

    def __init__(self, prop: str, tier: str, level: str = "model_checking"):
        self.prop, self.tier, self.level = prop, tier, level
        self.t0 = time.time()
        self.seed = seed()
        self.cov: dict = {
            "states": 0,
            "transitions": 0,
            "traces_validated_against_impl": 0,
            "evaluations": 0,
            "distinct_nontrivial": 0,
            "rule": "",
            "samples": [],
            "exhaustive": False,
            "spec_runs": [],
        }
        self.assumptions: list = []
        self.violations: list = []  # (fingerprint, replay_path, summary)
        self.known_hits: list = []
        self._nontrivial: set = set()
        self._vfp: set = set()
        self._known = load_known()
        self.all_fingerprints: list = []
        os.makedirs(os.path.join(REPLAYS, prop), exist_ok=True)
        os.makedirs(EVIDENCE, exist_ok=True)

    # ---- coverage
    def add_tlc(self, name: str, res, note: str = ""):
        self.cov["states"] += int(res.distinct)
        self.cov["transitions"] += int(res.generated)
        self.cov["spec_runs"].append(
            {"run": name, "distinct_states": res.distinct, "states_generated": res.generated, "wall_s": round(res.wall, 1), "note": note}
        )

    def add_eval(self, n: int = 1):
        self.cov["evaluations"] += n

    def add_traces(self, n: int = 1):
        self.cov["traces_validated_against_impl"] += n

    def nontrivial(self, key):
        self._nontrivial.add(key if isinstance(key, str) else json.dumps(key, sort_keys=True))

    def sample(self, s, cap: int = 6):
        if len(self.cov["samples"]) < cap:
            self.cov["samples"].append(s)

    # ---- violations
    def violation(self, fingerprint: str, summary: str, replay: dict):
        """Record a violation unless its fingerprint is a listed known finding."""
        for kf in self._known.get("findings", []):
            if kf.get("property") == self.prop and kf.get("fingerprint") == fingerprint:
                if fingerprint not in [k[0] for k in self.known_hits]:
                    self.known_hits.append((fingerprint, kf.get("what", summary)))
                return
        if fingerprint in self._vfp:
            return
        self._vfp.add(fingerprint)
        self.all_fingerprints.append(fingerprint)
        h = hashlib.sha1(fingerprint.encode()).hexdigest()[:12]
        path = os.path.join(REPLAYS, self.prop, f"{h}.json")
        replay = dict(replay)
        replay.update({"property": self.prop, "fingerprint": fingerprint, "summary": summary, "seed": self.seed, "tier": self.tier})
        if len(self.violations) < 300:  # every violation is counted; only the first 300 get a replay file
            with open(path, "w") as f:
                json.dump(replay, f, indent=1, sort_keys=True, default=str)
        self.violations.append((fingerprint, path, summary))

    # ---- finish
    def finish(self) -> int:
        self.cov["distinct_nontrivial"] = len(self._nontrivial)
        ev = {
            "property_id": self.prop,
            "tier": self.tier,
            "seed": self.seed,
            "level": self.level,
            "coverage": self.cov,
            "assumptions": self.assumptions,
            "wall_s": round(time.time() - self.t0, 1),
            "violations": len(self.violations),
            "known_findings_hit": [k[0] for k in self.known_hits],
        }
        with open(os.path.join(EVIDENCE, f"{self.prop}.json"), "w") as f:
            json.dump(ev, f, indent=1, sort_keys=True, default=str)
        for fp, what in self.known_hits:
            print(f"KNOWN-FINDING: property={self.prop} {what} [{fp}]")
        for fp, path, summary in self.violations[:50]:
            print(f"VIOLATION property={self.prop} replay={path}")
            print(f"  {summary}")
        if len(self.violations) > 50:
            print(f"  ... {len(self.violations) - 50} more violations (replay files written)")
        print(
            f"[{self.prop}/{self.tier}] states={self.cov['states']} transitions={self.cov['transitions']} "
            f"traces={self.cov['traces_validated_against_impl']} evaluations={self.cov['evaluations']} "
            f"nontrivial={self.cov['distinct_nontrivial']} violations={len(self.violations)} "
            f"known={len(self.known_hits)} wall={ev['wall_s']}s"
        )
        return 1 if self.violations else 0


def load_known() -> dict:
    try:
        with open(KNOWN) as f:
            return json.load(f)
    except FileNotFoundError:
        return {"findings": [], "fixed": []}


def machinery_failure(msg: str):
    print(f"MACHINERY-FAILURE: {msg}", file=sys.stderr)
    sys.exit(2)
