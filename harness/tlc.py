"""TLC runner: writes a cfg, runs tlc2.TLC on a module of /verif/spec, parses the output.

The JVM is started directly (not through the `tlc` wrapper) because the wrapper's parallel collector spends
most of its time in the kernel on this workload; the serial collector is 4-5x faster here.
"""
from __future__ import annotations

import json
import os
import re
import shutil
import subprocess
import time
from dataclasses import dataclass, field

VERIF = os.path.dirname(os.path.dirname(os.path.abspath(__file__)))
SPEC = os.path.join(VERIF, "spec")
BUILD = os.environ.get("VERIF_BUILD_DIR", os.path.join(VERIF, "build"))
CP = "/opt/veriftools/tla/tla2tools.jar:/opt/veriftools/tla/CommunityModules-deps.jar"


class MachineryError(Exception):
    pass


@dataclass
class TLCResult:
    rc: int
    out: str
    wall: float
    generated: int = 0
    distinct: int = 0
    prints: list = field(default_factory=list)
    malformed: list = field(default_factory=list)
    violated: str | None = None  # name of violated invariant / property, if any
    error: str | None = None  # other TLC error text
    coverage: dict = field(default_factory=dict)

    @property
    def ok(self) -> bool:
        return self.rc == 0 and self.violated is None and self.error is None


def cfg_text(spec="Spec", invariants=(), properties=(), constants=None, constraints=(), deadlock=False, extra=""):
    lines = [f"SPECIFICATION {spec}"]
    for i in invariants:
        lines.append(f"INVARIANT {i}")
    for p in properties:
        lines.append(f"PROPERTY {p}")
    for c in constraints:
        lines.append(f"CONSTRAINT {c}")
    lines.append(f"CHECK_DEADLOCK {'TRUE' if deadlock else 'FALSE'}")
    if constants:
        lines.append("CONSTANTS")
        for k, v in constants.items():
            lines.append(f"  {k} = {tla(v)}")
    if extra:
        lines.append(extra)
    return "\n".join(lines) + "\n"


def tla(v) -> str:
    """Python value -> TLA+ literal usable in a cfg."""
    if isinstance(v, bool):
        return "TRUE" if v else "FALSE"
    if isinstance(v, int):
        return str(v)
    if isinstance(v, str):
        return '"' + v + '"'
    if isinstance(v, (set, frozenset)):
        return "{" + ", ".join(sorted(tla(x) for x in v)) + "}"
    if isinstance(v, (list, tuple)):
        return "<<" + ", ".join(tla(x) for x in v) + ">>"
    raise TypeError(v)


_STATS = re.compile(r"(\d+) states generated, (\d+) distinct states found")


def run(
    module: str,
    cfg: str,
    tag: str,
    env: dict | None = None,
    workers: int = 16,
    timeout: int = 900,
    extra_args: list | None = None,
    heap: str = "12g",
    keep: bool = False,
    jvm: list | None = None,
) -> TLCResult:
    bdir = os.path.join(BUILD, tag)
    shutil.rmtree(bdir, ignore_errors=True)
    os.makedirs(bdir, exist_ok=True)
    cfgp = os.path.join(bdir, "MC.cfg")
    with open(cfgp, "w") as f:
        f.write(cfg)
    cmd = ["java", "-XX:+UseSerialGC", f"-Xmx{heap}", "-Xss64m"] + (jvm or []) + [
        "-cp", CP, "tlc2.TLC",
        "-workers", str(workers),
        "-metadir", os.path.join(bdir, "meta"),
        "-noGenerateSpecTE",
        "-config", cfgp,
    ] + (extra_args or []) + [module if module.endswith(".tla") else module + ".tla"]
    e = dict(os.environ)
    e.pop("JAVA_TOOL_OPTIONS", None)
    if env:
        e.update({k: str(v) for k, v in env.items()})
    t0 = time.time()
    try:
        p = subprocess.run(cmd, cwd=SPEC, env=e, stdout=subprocess.PIPE, stderr=subprocess.STDOUT, timeout=timeout, text=True)
        out, rc = p.stdout, p.returncode
    except subprocess.TimeoutExpired as ex:
        out = (ex.stdout or b"").decode() if isinstance(ex.stdout, bytes) else (ex.stdout or "")
        rc = 124
    wall = time.time() - t0
    res = TLCResult(rc=rc, out=out, wall=wall)
    with open(os.path.join(bdir, "tlc.out"), "w") as f:
        f.write(out)
    for m in _STATS.finditer(out):
        res.generated, res.distinct = int(m.group(1)), int(m.group(2))
    for line in out.splitlines():
        s = line.strip()
        if s.startswith('"{') or s.startswith('"['):
            try:
                res.prints.append(json.loads(json.loads(s)))
            except Exception:
                res.malformed.append(s[:200])
    m = re.search(r"^Error: Invariant (\S+) is violated", out, re.M)
    if m:
        res.violated = m.group(1)
    m = re.search(r"Error: (Action property|Temporal properties?) (\S+)?.*violated", out)
    if m and not res.violated:
        res.violated = m.group(2) or "property"
    if rc == 124:
        res.error = "timeout"
    elif res.violated is None and (re.search(r"^Error:", out, re.M) or rc != 0):
        em = re.search(r"^Error: (.*)", out, re.M)
        res.error = em.group(1)[:500] if em else f"rc={rc}"
    if not keep and res.ok:
        shutil.rmtree(os.path.join(bdir, "meta"), ignore_errors=True)
    return res


def require_ok(res: TLCResult, what: str) -> TLCResult:
    if res.error is not None or res.malformed:
        raise MachineryError(f"{what}: TLC failed: {res.error or 'malformed output'}\n{res.out[-3000:]}")
    return res
